"""Native confirmation batteries.

A counterexample of the MIR engine is abstract wherever the code calls into I/O (the file system, sled, child processes are
havocked leaves): it says *which* obligation of the property the code no longer satisfies, not which bytes on disk show it.
Each battery is a fixed family of small concrete scenarios for one property, run through the real binary built from the same
scratch copy and compared with an independent oracle (byte comparison, an uncached run, the real run vs the dry run ...).
A battery runs only after the solver has produced a counterexample; a deviation it finds is the replay that turns the
counterexample into a VIOLATION, no deviation leaves the obligation inconclusive.  Batteries never decide anything on their own.
"""
import json
import os
import shutil
import subprocess
import tempfile
import time

_memo = {}


def _run(binary, args, env, timeout=180, stdin=None):
    return subprocess.run([binary] + args, stdout=subprocess.PIPE, stderr=subprocess.PIPE, env=env, timeout=timeout, input=stdin)


def groups_json(binary, args, env):
    r = _run(binary, ["group", "-f", "json"] + args, env)
    try:
        return json.loads(r.stdout.decode(errors="replace")).get("groups", [])
    except Exception:   # noqa
        return [{"error": r.stderr.decode(errors="replace")[-300:], "files": [], "file_len": -1}]


def group_names(binary, args, env):
    return sorted(sorted(os.path.basename(f) for f in g["files"]) for g in groups_json(binary, args, env))


def mkenv(d):
    return dict(os.environ, HOME=d, XDG_CACHE_HOME=os.path.join(d, "cache"), TMPDIR=os.path.join(d, "tmp"))


def fresh(prefix):
    d = tempfile.mkdtemp(prefix=prefix, dir="/var/tmp")
    os.makedirs(os.path.join(d, "tmp"))
    os.makedirs(os.path.join(d, "root"))
    return d, os.path.join(d, "root")


# ------------------------------------------------------------------ C12: cached == uncached over histories

def c12_battery(binary):
    """multi-run histories; after every step a cached run must report the groups an uncached run reports at that moment"""
    if ("c12", binary) in _memo:
        return _memo[("c12", binary)]
    devs = []
    T0 = 1_600_000_000

    def ns(sec, ms=0):
        return (sec * 1_000_000_000 + ms * 1_000_000,) * 2

    def compare(tag, root, env, args):
        cached = group_names(binary, ["--cache"] + args + [root], env)
        plain = group_names(binary, args + [root], env)
        if cached != plain:
            devs.append({"history": tag, "options": args, "cached": cached, "uncached": plain})

    def hist(tag, steps, args=None, nruns=1):
        d, root = fresh("c12b.")
        env = mkenv(d)
        try:
            for i, step in enumerate(steps):
                a = step(root) or (args or [])
                for _ in range(nruns):
                    compare("%s / step %d" % (tag, i + 1), root, env, a)
        finally:
            shutil.rmtree(d, ignore_errors=True)

    def two(root, data=b"A" * 5000, t=ns(T0, 100)):
        for n in ("a.bin", "b.bin"):
            p = os.path.join(root, n)
            open(p, "wb").write(data)
            os.utime(p, ns=t)

    def edit(root, name, off, byte, t):
        p = os.path.join(root, name)
        with open(p, "r+b") as f:
            f.seek(off)
            f.write(byte)
        os.utime(p, ns=t)

    # same-length edit, mtime moves within the same second
    hist("same-length edit, mtime .100 -> .600 of the same second",
         [lambda r: two(r), lambda r: edit(r, "b.bin", 2500, b"B", ns(T0, 600))])
    # same-length edit, mtime moves backwards
    hist("same-length in-place rewrite whose mtime moves backwards (restored older version)",
         [lambda r: two(r, t=ns(T0 + 100)), lambda r: edit(r, "b.bin", 2500, b"B", ns(T0 - 5000))])
    # three states of one file (same inode, same length): v1 at T1, v2 at T2, v3 with the mtime put back to exactly T1
    # (cp -p / rsync -t / tar restore times): an entry that was not replaced after v2 would be served for v3
    hist("three versions, the third with the first one's mtime (entries must be replaced, not only added)",
         [lambda r: two(r, t=ns(T0, 100)), lambda r: edit(r, "b.bin", 2500, b"B", ns(T0 + 50, 300)),
          lambda r: edit(r, "b.bin", 2500, b"A", ns(T0 + 90, 0)), lambda r: edit(r, "b.bin", 1000, b"C", ns(T0, 100))])
    # same mtime, different length

    def grow(root):
        p = os.path.join(root, "b.bin")
        with open(p, "ab") as f:
            f.write(b"A")
        os.utime(p, ns=ns(T0, 100))
        open(os.path.join(root, "c.bin"), "wb").write(b"A" * 5001)
    hist("append with the old mtime restored (length differs)", [lambda r: two(r), grow])

    # switching hash function / transform / transform arguments between runs
    def three(root):
        for n, data in (("a.bin", b"aaXX11" + b"Q" * 3000), ("b.bin", b"aaYY22" + b"Q" * 3000), ("c.bin", b"aaXX11" + b"Q" * 3000)):
            open(os.path.join(root, n), "wb").write(data)
    # in-place rewrite that changes the length but keeps inode and mtime (cp --preserve=timestamps over an existing file): every
    # cached chunk of the old content - also the 4 KiB prefix chunk, which both lengths cover completely - is stale
    def four(root):
        for n, data in (("a.bin", b"A" * 20000), ("a2.bin", b"A" * 20000), ("b.bin", b"B" * 24000), ("c.bin", b"B" * 24000)):
            p = os.path.join(root, n)
            open(p, "wb").write(data)
            os.utime(p, ns=ns(T0, 100))

    def overwrite_keep_mtime(root):
        p = os.path.join(root, "a.bin")
        with open(p, "r+b") as f:
            f.truncate(0)
            f.write(b"B" * 24000)
        os.utime(p, ns=ns(T0, 100))
    hist("in-place rewrite with another length, inode and mtime kept (files larger than the prefix size)", [four, overwrite_keep_mtime])
    # modification times before 1970 (restored archives, broken clocks): a rewrite that moves the mtime from 1960 to 1965 changes it
    hist("same-length rewrite, mtime moves from 1960 to 1965 (both before the epoch)",
         [lambda r: two(r, t=ns(-315619200, 0)), lambda r: edit(r, "b.bin", 2500, b"B", ns(-144000000, 0))])
    hist("same-length rewrite, mtime moves from 1969-12-31 23:59:59.200 to 1970-01-01 00:00:00.200",
         [lambda r: two(r, t=(-800_000_000, -800_000_000)), lambda r: edit(r, "b.bin", 2500, b"B", (200_000_000, 200_000_000))])
    # the same command with and without --in-place hashes different bytes (the program's output vs the file it worked on)
    def inplace_files(root):
        for n, data in (("a.bin", b"AAAAxxxx111"), ("b.bin", b"AAAAyyyy222")):
            p = os.path.join(root, n)
            open(p, "wb").write(data)
            os.utime(p, ns=ns(T0, 100))
        return ["--transform", "head -c 4 $IN"]
    hist("the same transform command with and without --in-place",
         [inplace_files, lambda r: ["--transform", "head -c 4 $IN", "--in-place"], lambda r: ["--transform", "head -c 4 $IN"]])
    hist("switching --hash-fn / --transform between cached runs",
         [lambda r: three(r) or ["--hash-fn", "metro"], lambda r: ["--hash-fn", "blake3"], lambda r: ["--hash-fn", "sha256"],
          lambda r: ["--transform", "cat"], lambda r: ["--transform", "dd count=2 bs=1"], lambda r: ["--transform", "dd count=6 bs=1"],
          lambda r: ["--transform", "dd count=8 bs=1"], lambda r: ["--hash-fn", "metro"]])

    # long digests: a group that mixes files served from the cache with files hashed in this run
    def addcopy(root):
        shutil.copy(os.path.join(root, "a.bin"), os.path.join(root, "d_copy.bin"))
    for hf in ("sha256", "blake3", "sha512", "sha3-256"):
        hist("new copy of a cached file, --hash-fn %s" % hf, [lambda r: two(r, data=b"L" * 70000) or ["--hash-fn", hf], lambda r: addcopy(r) or ["--hash-fn", hf],
                                                          lambda r: ["--hash-fn", hf]])

    # transform whose output lengths agree while input lengths differ; warm cache, renamed file
    def tr1(root):
        open(os.path.join(root, "a.bin"), "wb").write(b"xxhello")
        open(os.path.join(root, "b.bin"), "wb").write(b"hello")
        open(os.path.join(root, "c.bin"), "wb").write(b"hexllo")
        return ["--transform", "tr -d x"]

    def tr2(root):
        os.rename(os.path.join(root, "a.bin"), os.path.join(root, "a2.bin"))
        return ["--transform", "tr -d x"]
    hist("length-changing transform, warm cache, renamed file", [tr1, tr2, lambda r: ["--transform", "tr -d x"]], nruns=2)

    # transform that emits output and then fails: the failure must not be forgotten by the cache
    def fail1(root):
        for n in ("a.bin", "b.bin", "c.bin"):
            open(os.path.join(root, n), "wb").write(b"same content " * 20)
        return ["--transform", "grep -c zzz"]      # prints "0" and exits with status 1
    hist("transform that prints its output and exits non-zero, repeated cached runs",
         [fail1, lambda r: ["--transform", "grep -c zzz"]], nruns=2)

    # prefix / suffix sizes switched between runs, files sharing long prefixes and suffixes
    def shared(root):
        base = bytearray(b"P" * 40000)
        for i, off in enumerate((100, 20000, 39990)):
            x = bytearray(base)
            x[off] = 0x31 + i
            open(os.path.join(root, "s%d.bin" % i), "wb").write(bytes(x))
        open(os.path.join(root, "s9.bin"), "wb").write(bytes(base))
        open(os.path.join(root, "s8.bin"), "wb").write(bytes(base))
    hist("prefix/suffix sizes switched between cached runs",
         [lambda r: shared(r), lambda r: ["--max-prefix-size", "64KiB"], lambda r: ["--max-suffix-size", "1"], lambda r: ["--max-prefix-size", "1"],
          lambda r: []])

    # delete and recreate (possible inode reuse) with other content of the same length
    def recreate(root):
        p = os.path.join(root, "b.bin")
        os.remove(p)
        open(p, "wb").write(b"B" * 5000)
        os.utime(p, ns=ns(T0 + 50, 300))
    hist("delete and recreate with other content of the same length", [lambda r: two(r), recreate])
    _memo[("c12", binary)] = devs
    return devs


# ------------------------------------------------------------------ C01: groups contain only identical content

def c01_battery(binary):
    """pairs differing in one byte at offsets around every threshold, under several configurations; transforms; hard links.
    Oracle: byte comparison (of the transform output where a transform is used) and the printed length."""
    if ("c01", binary) in _memo:
        return _memo[("c01", binary)]
    devs = []
    d, root = fresh("c01b.")
    env = mkenv(d)
    try:
        n = 0
        for size in (1, 4095, 4096, 4097, 8192, 16383, 16384, 16385, 40000, 65535, 65536, 65537, 70000, 140000):
            for off in sorted({0, size // 2, size - 1, min(4096, size - 1), min(16384, size - 1), max(size - 4097, 0), max(size - 16385, 0)}):
                base = bytearray(b"\x11" * size)
                open(os.path.join(root, "s%d_o%d_a.bin" % (size, off)), "wb").write(bytes(base))
                base[off] ^= 0xFF
                open(os.path.join(root, "s%d_o%d_b.bin" % (size, off)), "wb").write(bytes(base))
                n += 1
        configs = [[], ["--max-prefix-size", "1"], ["--max-suffix-size", "1"], ["--max-prefix-size", "64KiB"], ["--max-prefix-size", "32KiB", "--max-suffix-size", "64KiB"],
                   ["--hash-fn", "blake3"], ["--hash-fn", "xxhash3"], ["--hash-fn", "sha256"], ["--cache"], ["--cache", "--max-prefix-size", "64KiB"], ["--threads", "1"]]
        for extra in configs:
            for g in groups_json(binary, extra + [root], env):
                contents = {open(f, "rb").read() for f in g["files"]}
                if len(contents) > 1:
                    devs.append({"options": extra, "files_with_different_bytes_in_one_group": [os.path.basename(f) for f in g["files"]][:4]})
                elif contents and g.get("file_len") != len(next(iter(contents))):
                    devs.append({"options": extra, "printed_length": g.get("file_len"), "real_length": len(next(iter(contents)))})
            if len(devs) > 5:
                break
    finally:
        shutil.rmtree(d, ignore_errors=True)
    # transforms
    d, root = fresh("c01t.")
    env = mkenv(d)
    try:
        files = {"x1.txt": b"x1", "x2.txt": b"x2", "y.txt": b"x1", "long_a.txt": b"A" * 5000 + b"1", "long_b.txt": b"A" * 5000 + b"2",
                 "p1.txt": b"xxhello", "p2.txt": b"hello", "p3.txt": b"hexllo"}
        for nme, data in files.items():
            open(os.path.join(root, nme), "wb").write(data)
        os.link(os.path.join(root, "x1.txt"), os.path.join(root, "x1_link.txt"))
        files["x1_link.txt"] = files["x1.txt"]
        import subprocess as sp
        for tr in ("sed -e s/^/AAAAAAAA/", "base64", "cat", "head -c 1", "tr -d x", "dd count=2 bs=1", "cat $IN"):
            hfs = [["--hash-fn", h] for h in ("blake3", "xxhash3", "sha256", "sha512", "sha3-256", "sha3-512", "metro")] if tr in ("sed -e s/^/AAAAAAAA/", "base64") else []
            for extra in [[], ["--cache"], ["--cache"], ["--threads", "8"]] + hfs:
                def out_of(data):
                    cmd = tr.replace("$IN", "/dev/stdin")
                    return sp.run(["sh", "-c", cmd], input=data, stdout=sp.PIPE, stderr=sp.DEVNULL).stdout
                for g in groups_json(binary, extra + ["--transform", tr, root], env):
                    names = [os.path.basename(f) for f in g["files"]]
                    outs = {out_of(files[nm]) for nm in names if nm in files}
                    if len(outs) > 1:
                        devs.append({"options": extra + ["--transform", tr], "files_with_different_output_in_one_group": names[:4]})
                    elif outs and g.get("file_len") != len(next(iter(outs))):
                        devs.append({"options": extra + ["--transform", tr], "printed_length": g.get("file_len"), "real_length": len(next(iter(outs))), "files": names[:3]})
    finally:
        shutil.rmtree(d, ignore_errors=True)
    # $IN temp copies of equally named files in different directories, many threads
    d, root = fresh("c01n.")
    env = mkenv(d)
    try:
        for i in range(12):
            sub = os.path.join(root, "d%d" % i)
            os.makedirs(sub)
            open(os.path.join(sub, "same_name.bin"), "wb").write(bytes([65 + i % 4]) * 3000)
        for rep_ in range(3):
            for g in groups_json(binary, ["--threads", "8", "--transform", "cat $IN", root], env):
                contents = {open(f, "rb").read() for f in g["files"]}
                if len(contents) > 1:
                    devs.append({"options": ["--threads", "8", "--transform", "cat $IN"], "files_with_different_bytes_in_one_group": g["files"][:3]})
            if devs:
                break
    finally:
        shutil.rmtree(d, ignore_errors=True)
    _memo[("c01", binary)] = devs
    return devs


# ------------------------------------------------------------------ C03 / C06: the reported groups are the qualifying content classes

def _classes(paths):
    by = {}
    for p in paths:
        by.setdefault(open(p, "rb").read(), []).append(p)
    return list(by.values())


def _expected(paths, rf_over=None, rf_under=None, match_links=False):
    out = []
    for cls in _classes(paths):
        replicas = len(cls) if match_links else len({(os.stat(p).st_dev, os.stat(p).st_ino) for p in cls})
        if rf_under is not None:
            ok = replicas < rf_under
        else:
            ok = replicas > (1 if rf_over is None else rf_over)
        if ok:
            out.append(sorted(cls))
    return sorted(out)


def _stdin_groups(binary, roots, env):
    r = subprocess.run([binary, "group", "-f", "json", "--stdin"], input=("\n".join(roots) + "\n").encode(), stdout=subprocess.PIPE, stderr=subprocess.PIPE, env=env, timeout=120)
    try:
        return json.loads(r.stdout.decode(errors="replace")).get("groups", [])
    except Exception:   # noqa
        return [{"files": ["<no report: %s>" % r.stderr.decode(errors="replace")[-100:]]}]


def c03_battery(binary):
    """content classes of several sizes, hard links, repeated / overlapping roots; every reported partition is compared with the
    partition computed from the bytes and inode numbers"""
    if ("c03", binary) in _memo:
        return _memo[("c03", binary)]
    devs = []

    def check(tag, root_args, all_paths, env, extra, **kw):
        got = sorted(sorted(g["files"]) for g in groups_json(binary, extra + root_args, env))
        want = _expected(all_paths, **kw)
        flat = [f for g in got for f in g]
        if len(flat) != len(set(flat)):
            devs.append({"scenario": tag, "options": extra, "problem": "a path is listed twice", "listed": len(flat), "distinct": len(set(flat))})
        elif got != want:
            missing = [g for g in want if g not in got]
            extra_g = [g for g in got if g not in want]
            devs.append({"scenario": tag, "options": extra, "problem": "reported groups differ from the content classes",
                         "missing_or_split": [[os.path.basename(f) for f in g][:5] for g in missing[:2]],
                         "unexpected": [[os.path.basename(f) for f in g][:5] for g in extra_g[:2]]})

    # T1: repeated roots + many hard links
    d, root = fresh("c03a.")
    env = mkenv(d)
    try:
        dd = os.path.join(root, "d")
        os.makedirs(dd)
        open(os.path.join(dd, "x"), "wb").write(b"X" * 100)
        open(os.path.join(dd, "y0"), "wb").write(b"Y" * 100)
        for i in range(1, 13):
            os.link(os.path.join(dd, "y0"), os.path.join(dd, "y%d" % i))
        open(os.path.join(dd, "z"), "wb").write(b"Y" * 100)
        paths = [os.path.join(dd, n) for n in os.listdir(dd)]
        for roots in ([dd], [dd, dd], [dd, dd + "/."], [root, dd]):
            for extra in ([], ["--threads", "1"]):
                check("repeated / overlapping roots with a hard-link set", roots, paths, env, extra)
        check("hard links, --match-links", [dd, dd], paths, env, ["--match-links"], match_links=True)
        for roots in ([dd, dd], [dd, dd + "/."], [root, dd]):
            got = sorted(sorted(g["files"]) for g in _stdin_groups(binary, roots, env))
            flat = [f for g in got for f in g]
            if len(flat) != len(set(flat)) or got != _expected(paths):
                devs.append({"scenario": "repeated / overlapping roots given with --stdin", "roots": [os.path.basename(r) or r for r in roots],
                             "problem": "a path is listed twice" if len(flat) != len(set(flat)) else "reported groups differ from the content classes",
                             "listed": len(flat), "distinct": len(set(flat))})
    finally:
        shutil.rmtree(d, ignore_errors=True)
    # T2: classes around the stage thresholds, spread over directories
    d, root = fresh("c03b.")
    env = mkenv(d)
    try:
        paths = []
        for size in (1, 4096, 4097, 16384, 40000, 65537, 140000):
            body = bytes([size % 251]) * size
            for i in range(3):
                sub = os.path.join(root, "dir%d" % i)
                os.makedirs(sub, exist_ok=True)
                p = os.path.join(sub, "f%d.bin" % size)
                open(p, "wb").write(body)
                paths.append(p)
            near = bytearray(body)
            near[-1] ^= 1
            p = os.path.join(root, "dir0", "near%d.bin" % size)
            open(p, "wb").write(bytes(near))
            paths.append(p)
            p2 = os.path.join(root, "dir1", "nearlink%d.bin" % size)
            os.link(p, p2)
            paths.append(p2)
        for extra, kw in (([], {}), (["--max-prefix-size", "64KiB"], {}), (["--cache"], {}), (["--cache"], {}), (["--rf-over", "2"], {"rf_over": 2}),
                          (["--unique"], {"rf_under": 2}), (["--rf-under", "3"], {"rf_under": 3}), (["--transform", "cat"], {}),
                          (["--transform", "cat", "--cache"], {}), (["--transform", "cat", "--cache"], {}), (["--hash-fn", "blake3", "--threads", "1"], {}),
                          (["--match-links"], {"match_links": True}), (["--rf-over", "0"], {"rf_over": 0})):
            check("classes around the stage thresholds", [root], paths, env, extra, **kw)
    finally:
        shutil.rmtree(d, ignore_errors=True)
    _memo[("c03", binary)] = devs
    return devs


# ------------------------------------------------------------------ C11: the dry-run script is what a real run does

def _tree_state(root):
    """names -> (kind, content / link target); plus the partition of regular files by inode"""
    st = {}
    inodes = {}
    for dp, dn, fn in os.walk(root):
        for n in fn:
            p = os.path.join(dp, n)
            rel = os.path.relpath(p, root)
            if os.path.islink(p):
                st[rel] = ("symlink", os.path.relpath(os.path.join(os.path.dirname(p), os.readlink(p)), root))
            else:
                s = os.lstat(p)
                st[rel] = ("file", open(p, "rb").read())
                inodes.setdefault((s.st_dev, s.st_ino), []).append(rel)
    return st, sorted(sorted(v) for v in inodes.values())


def c11_battery(binary):
    """for several trees / operations / options: summary of --dry-run == summary of the real run; executing the printed script with
    bash on an identical tree gives the tree the real run gives (remove, link, link --soft); group order of the script = report order"""
    import re
    if ("c11", binary) in _memo:
        return _memo[("c11", binary)]
    devs = []

    def mk_plain(root):
        os.makedirs(root)
        for g, c in (("g1", b"1" * 3000), ("g2", b"2" * 2000), ("g3", b"3" * 1000)):
            for n in ("a", "b", "c"):
                sub = os.path.join(root, n)
                os.makedirs(sub, exist_ok=True)
                open(os.path.join(sub, "%s_%s.bin" % (g, n)), "wb").write(c)
        os.link(os.path.join(root, "c", "g3_c.bin"), os.path.join(root, "c", "g3_c_link.bin"))

    def mk_hostile(root):
        os.makedirs(root)
        names = ["plain", "with space", "quote'single", 'quote"double', "dollar$HOME", "new\nline", "tab\there", "back\\slash", "~tilde", "star*", "semi;colon", "żółw"]
        for i, n in enumerate(names):
            open(os.path.join(root, n + ".1"), "wb").write(bytes([65 + i]) * (100 + i))
            open(os.path.join(root, n + ".2"), "wb").write(bytes([65 + i]) * (100 + i))

    def mk_sizes(root):
        os.makedirs(root)
        os.makedirs(os.path.join(root, "a"))
        os.makedirs(os.path.join(root, "b"))
        open(os.path.join(root, "a", "plain"), "wb").write(b"A" * 1000)
        open(os.path.join(root, "b", "padded"), "wb").write(b"A" * 1000 + b"X" * 2000)

    def mk_long(root):
        # a retained file whose name is close to NAME_MAX, short names for the files that get replaced
        os.makedirs(root)
        open(os.path.join(root, "a" * 240), "wb").write(b"L" * 700)
        open(os.path.join(root, "b_short"), "wb").write(b"L" * 700)
        open(os.path.join(root, "c_short"), "wb").write(b"L" * 700)
        for g in ("x1", "x2"):
            open(os.path.join(root, g), "wb").write(b"O" * 300)

    def mk_symlinked(root):
        # the retained sub-group of a --symbolic-links report starts with a relative symlink
        os.makedirs(os.path.join(root, "archive"))
        os.makedirs(os.path.join(root, "backup"))
        open(os.path.join(root, "archive", "photo.jpg"), "wb").write(b"P" * 900)
        os.symlink("photo.jpg", os.path.join(root, "archive", "aa_latest"))
        open(os.path.join(root, "backup", "copy.jpg"), "wb").write(b"P" * 900)

    scenarios = [
        ("a group that lists a relative symlink first (--symbolic-links)", mk_symlinked, ["-S"], [["link"], ["link", "--soft"], ["remove"]]),
        ("a retained file with a 240-byte name", mk_long, [], [["link"], ["link", "--soft"], ["remove"]]),
        ("plain", mk_plain, [], [["remove"], ["link"], ["link", "--soft"], ["remove", "--keep-name", "g1_*"], ["remove", "--keep-name", "g2_*"],
                                 ["remove", "--keep-path", "**/a/*", "--keep-path", "**/b/*", "--keep-path", "**/c/g1*"], ["remove", "-n", "2"], ["link", "--priority", "newest"]]),
        ("hostile names", mk_hostile, [], [["remove"], ["link"], ["link", "--soft"]]),
        ("lengths differ (transform report)", mk_sizes, ["--transform", "tr -d X"], [["link"], ["link", "--soft"], ["remove"]]),
    ]
    for tag, mk, gargs, ops in scenarios:
        for op in ops:
            d = tempfile.mkdtemp(prefix="c11b.", dir="/var/tmp")
            try:
                env = mkenv(d)
                os.makedirs(os.path.join(d, "tmp"))
                t1, t2 = os.path.join(d, "t1", "tree"), os.path.join(d, "t2", "tree")
                os.makedirs(os.path.dirname(t1)); os.makedirs(os.path.dirname(t2))
                mk(t1); mk(t2)
                # same mtimes in both trees (priority options)
                rep1, rep2 = os.path.join(d, "rep1.txt"), os.path.join(d, "rep2.txt")
                for t, rp in ((t1, rep1), (t2, rep2)):
                    with open(rp, "wb") as f:
                        subprocess.run([binary, "group"] + gargs + ["tree"], cwd=os.path.dirname(t), stdout=f, stderr=subprocess.PIPE, env=env, timeout=120)
                order = [l.split(b",")[0] for l in open(rep1, "rb").read().splitlines() if re.match(rb"^[0-9a-f]{16,}, ", l)]
                with open(rep1, "rb") as f:
                    dr = subprocess.run([binary] + op + ["--dry-run"], cwd=os.path.dirname(t1), stdin=f, stdout=subprocess.PIPE, stderr=subprocess.PIPE, env=env, timeout=120)
                with open(rep2, "rb") as f:
                    rr = subprocess.run([binary] + op, cwd=os.path.dirname(t2), stdin=f, stdout=subprocess.PIPE, stderr=subprocess.PIPE, env=env, timeout=120)
                if b"panicked" in dr.stderr + rr.stderr or b"rror:" in dr.stderr.split(b"\n")[0]:
                    # option not accepted by this build (e.g. -n): not a C11 matter
                    continue
                m1 = re.search(rb"Would process (\d+) files and reclaim (?:up to )?([^\n]*) space", dr.stderr)
                m2 = re.search(rb"Processed (\d+) files and reclaimed (?:up to )?([^\n]*) space", rr.stderr)
                s1 = (m1.group(1).decode(), m1.group(2).decode()) if m1 else None
                s2 = (m2.group(1).decode(), m2.group(2).decode()) if m2 else None
                if s1 != s2:
                    devs.append({"tree": tag, "cmd": " ".join(op), "dry_run_summary": s1, "real_run_summary": s2})
                    continue
                # run the script on t1 and compare with the real run's tree t2
                script = os.path.join(d, "script.sh")
                open(script, "wb").write(dr.stdout)
                br = subprocess.run(["bash", script], cwd=os.path.dirname(t1), stdout=subprocess.PIPE, stderr=subprocess.PIPE, env=env, timeout=120)
                st1, st2 = _tree_state(t1), _tree_state(t2)
                if st1 != st2:
                    diff = sorted(set(st1[0]) ^ set(st2[0]))[:4] or [k for k in st1[0] if st1[0][k] != st2[0].get(k)][:4]
                    devs.append({"tree": tag, "cmd": " ".join(op), "problem": "tree after `bash script` differs from the tree after the real run",
                                 "differing_paths": diff, "bash_stderr": br.stderr.decode(errors="replace")[:200],
                                 "link_sets_script": st1[1][:3] if st1[1] != st2[1] else None, "link_sets_real": st2[1][:3] if st1[1] != st2[1] else None})
            finally:
                shutil.rmtree(d, ignore_errors=True)
    # many groups of different sizes: the summary of the dry run must not depend on the order in which the worker threads deliver
    # the groups (repeated, the arrival order varies from run to run)
    d = tempfile.mkdtemp(prefix="c11b.", dir="/var/tmp")
    try:
        env = mkenv(d)
        os.makedirs(os.path.join(d, "tmp"))
        t = os.path.join(d, "tree")
        os.makedirs(t)
        for i in range(1, 41):
            for side in ("a", "b"):
                open(os.path.join(t, "g%02d_%s" % (i, side)), "wb").write(bytes([64 + i]) * i)
        g = subprocess.run([binary, "group", t], stdout=subprocess.PIPE, stderr=subprocess.PIPE, env=env, timeout=120)
        seen = set()
        for _ in range(20):
            dr = subprocess.run([binary, "remove", "--dry-run"], input=g.stdout, stdout=subprocess.PIPE, stderr=subprocess.PIPE, env=env, timeout=120)
            m1 = re.search(rb"Would process (\d+) files and reclaim (?:up to )?([^\n]*) space", dr.stderr)
            seen.add((m1.group(1).decode(), m1.group(2).decode()) if m1 else None)
        rr = subprocess.run([binary, "remove"], input=g.stdout, stdout=subprocess.PIPE, stderr=subprocess.PIPE, env=env, timeout=120)
        m2 = re.search(rb"Processed (\d+) files and reclaimed (?:up to )?([^\n]*) space", rr.stderr)
        real = (m2.group(1).decode(), m2.group(2).decode()) if m2 else None
        if seen != {real}:
            devs.append({"tree": "40 groups of 1..40 bytes", "cmd": "remove", "dry_run_summaries_of_20_runs": sorted(map(str, seen)), "real_run_summary": real})
    finally:
        shutil.rmtree(d, ignore_errors=True)
    _memo[("c11", binary)] = devs
    return devs


# ------------------------------------------------------------------ C06: replica counting (links, isolation, filter, root spelling)

def c06_battery(binary):
    """one tree with copies, hard links, a symlink and three roots; the reported groups under many option sets and root spellings are
    compared with the counting rule of the documentation (replica = hard-link set, path with --match-links, root with --isolate)"""
    if ("c06", binary) in _memo:
        return _memo[("c06", binary)]
    devs = []
    d = tempfile.mkdtemp(prefix="c06b.", dir="/var/tmp")
    try:
        env = mkenv(d)
        os.makedirs(os.path.join(d, "tmp"))
        w = os.path.join(d, "w")
        for r in ("r1", "r2", "r3", "r4", "other"):
            os.makedirs(os.path.join(w, r))
        A, X, U, T = b"A" * 100, b"X" * 90, b"U" * 80, b"T" * 70
        files = {"r1/a": A, "r1/a2": A, "r2/b": A, "r3/c": A, "r1/p": X, "r1/q": X, "r2/u": U, "r4/t": T}
        for rel, data in files.items():
            open(os.path.join(w, rel), "wb").write(data)
        os.link(os.path.join(w, "r1/a"), os.path.join(w, "r1/h"))
        os.link(os.path.join(w, "r4/t"), os.path.join(w, "r4/t2"))
        os.symlink("t", os.path.join(w, "r4/l"))
        for sub in ("x/r", "y/r"):
            os.makedirs(os.path.join(w, sub))
            open(os.path.join(w, sub, "e_" + sub[0]), "wb").write(b"E" * 60)
        os.symlink(os.path.join(w, "r1"), os.path.join(w, "r1link"))
        content = dict(files)
        content["r1/h"] = A
        content["r4/l"] = T
        content["r4/t2"] = T
        content["x/r/e_x"] = b"E" * 60
        content["y/r/e_y"] = b"E" * 60

        def expected(roots, isolate, match_links, symlinks, rf_over=None, rf_under=None):
            members = [rel for rel in content if any(rel.startswith(r + "/") for r in roots) and (symlinks or rel != "r4/l")]
            classes = {}
            for rel in members:
                classes.setdefault(content[rel], []).append(rel)
            out = []
            for cls in classes.values():
                keys = set()
                for rel in cls:
                    st = os.stat(os.path.join(w, rel))
                    if isolate:
                        keys.add(("root", [i for i, r in enumerate(roots) if rel.startswith(r + "/")][0]))
                    elif match_links:
                        keys.add(("path", rel))
                    else:
                        keys.add(("id", st.st_dev, st.st_ino))
                n = len(keys)
                ok = (n < rf_under) if rf_under is not None else (n > (1 if rf_over is None else rf_over))
                if ok:
                    out.append(sorted(os.path.basename(x) for x in cls))
            return sorted(out)

        def run(args, cwd=w):
            r = subprocess.run([binary, "group", "-f", "json"] + args, cwd=cwd, stdout=subprocess.PIPE, stderr=subprocess.PIPE, env=env, timeout=120)
            try:
                gs = json.loads(r.stdout.decode(errors="replace")).get("groups", [])
            except Exception:   # noqa
                err = r.stderr.decode(errors="replace")
                if "replication factor" in err:
                    return None         # the option combination is refused up front (isolate with too few roots): nothing to compare
                return [["<no report: %s>" % err[-120:]]]
            return sorted(sorted(os.path.basename(f) for f in g["files"]) for g in gs)

        def check(tag, args, want, cwd=w):
            got = run(args, cwd)
            if got is not None and got != want:
                devs.append({"scenario": tag, "options": args, "reported": got, "documented": want})

        R = ["r1", "r2", "r3", "r4"]
        for extra, kw in (([], {}), (["--rf-over", "3"], {"rf_over": 3}), (["--rf-over", "4"], {"rf_over": 4}), (["--unique"], {"rf_under": 2}),
                          (["--rf-under", "5"], {"rf_under": 5}), (["--rf-over", "0"], {"rf_over": 0})):
            check("plain counting (hard links are one replica)", extra + R, expected(R, False, False, False, **kw))
            check("--match-links", ["--match-links"] + extra + R, expected(R, False, True, False, **kw))
            check("--isolate", ["--isolate"] + extra + R, expected(R, True, False, False, **kw))
            check("--isolate --match-links", ["--isolate", "--match-links"] + extra + R, expected(R, True, True, False, **kw))
            check("--symbolic-links", ["-S"] + extra + R, expected(R, False, False, True, **kw))
            check("--symbolic-links --match-links", ["-S", "--match-links"] + extra + R, expected(R, False, True, True, **kw))
        # pipelines that end with the permissive filter
        for extra in (["--skip-content-hash"], ["--transform", "cat"]):
            check("plain counting, %s" % extra[0], extra + R, expected(R, False, False, False))
            check("--isolate, %s" % extra[0], ["--isolate"] + extra + R, expected(R, True, False, False))
        # root spellings
        want = expected(["r1", "r2"], True, False, False)
        want_u = expected(["r1", "r2"], True, False, False, rf_under=2)
        for sp in (["./r1", "./r2"], ["r1/", "r2/"], ["r1/../r1", "r2"], ["r1link", "r2"], [os.path.join(w, "r1"), os.path.join(w, "r2")], ["r3/../r1", "./r2/."]):
            check("--isolate with roots spelled %s" % sp, ["--isolate"] + sp, want)
            check("--isolate --unique with roots spelled %s" % sp, ["--isolate", "--unique"] + sp, want_u)
        for extra, kw in (([], {}), (["--unique"], {"rf_under": 2})):
            check("--isolate with two roots whose last directory names are equal", ["--isolate"] + extra + ["x/r", "y/r"], expected(["x/r", "y/r"], True, False, False, **kw))
            check("--isolate with nested-looking roots", ["--isolate"] + extra + ["x/r", "y/r", "r1"], expected(["x/r", "y/r", "r1"], True, False, False, **kw))
        # sibling roots one of whose names is a string prefix of the other
        for nm in ("data", "data2", "dat"):
            os.makedirs(os.path.join(w, nm))
            open(os.path.join(w, nm, "z_" + nm), "wb").write(b"Z" * 55)
        for roots in (["data", "data2"], ["data2", "data"], ["dat", "data", "data2"], ["data", "data2", "dat"]):
            check("--isolate with sibling roots %s" % roots, ["--isolate"] + roots, [sorted("z_" + r for r in roots)])
            check("--isolate --rf-over %d with sibling roots %s" % (len(roots), roots), ["--isolate", "--rf-over", str(len(roots) - 1)] + roots, [sorted("z_" + r for r in roots)])
        # followed links whose absolute target is not canonical: the file must still count as one path
        os.makedirs(os.path.join(w, "real", "sub"))
        open(os.path.join(w, "real", "sub", "only"), "wb").write(b"O" * 45)
        os.symlink("real", os.path.join(w, "alias"))
        os.makedirs(os.path.join(w, "scan1"))
        os.makedirs(os.path.join(w, "scan2"))
        os.symlink(os.path.join(w, "alias", "sub"), os.path.join(w, "scan1", "lnk"))
        os.symlink(os.path.join(w, "scan2", "..", "real", "sub"), os.path.join(w, "scan2", "lnk"))
        for sc in ("scan1", "scan2"):
            check("-L with a directory link whose absolute target is not canonical (%s), --match-links" % sc, ["-L", "--match-links", sc, "real"], [])
            check("-L with a directory link whose absolute target is not canonical (%s)" % sc, ["-L", sc, "real"], [])
            check("-L --unique with a directory link whose absolute target is not canonical (%s)" % sc, ["-L", "--unique", sc, "real"], [["only"]])
        check("--isolate with --base-dir and relative roots, run from another directory", ["--isolate", "--base-dir", w, "r1", "r2"], want, cwd=os.path.join(w, "other"))
        check("--isolate --unique with --base-dir and relative roots", ["--isolate", "--unique", "--base-dir", w, "r1", "r2"], want_u, cwd=os.path.join(w, "other"))
    finally:
        shutil.rmtree(d, ignore_errors=True)
    _memo[("c06", binary)] = devs
    return devs


# ------------------------------------------------------------------ C08: which files a dedupe command drops

def c08_battery(binary):
    """hand-computed expectations for small groups: isolate roots inherited from the report header (also non-canonically spelled),
    hard-link sets kept or dropped as a whole, keep / drop patterns, -n inherited from `group`, time priorities with distinct mtimes"""
    import re
    if ("c08", binary) in _memo:
        return _memo[("c08", binary)]
    devs = []

    def dropped(cwd, gargs, dargs, env, dcwd=None):
        g = subprocess.run([binary, "group"] + gargs, cwd=cwd, stdout=subprocess.PIPE, stderr=subprocess.PIPE, env=env, timeout=120)
        r = subprocess.run([binary, "remove", "--dry-run"] + dargs, cwd=dcwd or cwd, input=g.stdout, stdout=subprocess.PIPE, stderr=subprocess.PIPE, env=env, timeout=120)
        if b"panicked" in r.stderr:
            return None
        return sorted(os.path.basename(l.decode(errors="replace").split()[-1].strip("'")) for l in r.stdout.splitlines() if l.startswith(b"rm "))

    def check(tag, cwd, gargs, dargs, want, env, dcwd=None):
        got = dropped(cwd, gargs, dargs, env, dcwd)
        if got is not None and got != sorted(want):
            devs.append({"scenario": tag, "group": gargs, "remove": dargs, "would_remove": got, "documented": sorted(want)})

    d = tempfile.mkdtemp(prefix="c08b.", dir="/var/tmp")
    try:
        env = mkenv(d)
        os.makedirs(os.path.join(d, "tmp"))
        # A: isolate roots from the header
        w = os.path.join(d, "A")
        for sub, names in (("a", ("x", "y")), ("b", ("z",)), ("c", ("w",))):
            os.makedirs(os.path.join(w, sub))
            for n in names:
                open(os.path.join(w, sub, n), "wb").write(b"S" * 500)
        os.symlink("a", os.path.join(w, "la"))
        for roots in (["a", "b", "c"], ["la", "b", "c"], ["b/../a", "b", "c"], ["./a/", "b", "c"]):
            check("isolate roots inherited from the header, roots spelled %s" % roots, w, ["--isolate"] + roots, [], ["z", "w"], env)
        for roots in (["a", "b", "c"], ["./a", "b/", "c"]):
            check("isolate roots inherited from a report with relative roots, remove run from another directory", w, ["--isolate"] + roots, [], ["z", "w"], env, dcwd=d)
            check("isolate roots and -n 2 inherited, remove run from another directory", w, ["--isolate", "-n", "2"] + roots, [], ["w"], env, dcwd=d)
        check("isolate roots given to remove explicitly (relative)", w, ["a", "b", "c"], ["--isolate", "a", "--isolate", "b", "--isolate", "c"], ["z", "w"], env)
        check("isolate roots given to remove explicitly (absolute)", w, ["a", "b", "c"], ["--isolate", os.path.join(w, "a"), "--isolate", os.path.join(w, "b"), "--isolate", os.path.join(w, "c")], ["z", "w"], env)
        check("isolate roots given to remove explicitly (through a symlink)", w, ["a", "b", "c"], ["--isolate", os.path.join(w, "la"), "--isolate", os.path.join(w, "b"), "--isolate", os.path.join(w, "c")], ["z", "w"], env)
        # B: hard-link set, keep pattern, n = 2 from the header
        w = os.path.join(d, "B")
        os.makedirs(w)
        open(os.path.join(w, "a1"), "wb").write(b"H" * 400)
        os.link(os.path.join(w, "a1"), os.path.join(w, "a2"))
        open(os.path.join(w, "b"), "wb").write(b"H" * 400)
        open(os.path.join(w, "c"), "wb").write(b"H" * 400)
        check("hard-link set kept by a pattern counts as one replica (n = 2 inherited)", w, ["-n", "2", "."], ["--keep-name", "a*"], ["c"], env)
        check("hard-link set is dropped as a whole", w, ["."], ["--keep-name", "b"], ["a1", "a2", "c"], env)
        check("only files matching --name may be dropped", w, ["."], ["--name", "c"], ["c"], env)
        check("n = 2 inherited from the header, report order", w, ["-n", "2", "."], [], ["c"], env)
        check("--match-links inherited: every path is a replica", w, ["--match-links", "-n", "2", "."], [], ["b", "c"], env)
        check("--match-links inherited from the header although -n is given to remove", w, ["--match-links", "."], ["-n", "2"], ["b", "c"], env)
        check("--match-links inherited from the header, -n 3 given to remove", w, ["--match-links", "."], ["-n", "3"], ["c"], env)
        check("-n 2 given to remove overrides the header's n = 1", w, ["."], ["-n", "2"], ["c"], env)
        check("--rf-over 1 given to remove overrides the header's n = 2", w, ["-n", "2", "."], ["--rf-over", "1"], ["b", "c"], env)
        check("-n 3 given to remove: nothing is redundant", w, ["."], ["-n", "3"], [], env)
        os.makedirs(os.path.join(d, "elsewhere"))
        check("hard-link set with an --isolate root that covers none of the files (n = 2 inherited)", w, ["-n", "2", "."],
              ["--isolate", os.path.join(d, "elsewhere")], ["c"], env)
        check("hard-link set with an --isolate root that covers none of the files", w, ["."], ["--isolate", os.path.join(d, "elsewhere")], ["b", "c"], env)
        # C: priorities
        w = os.path.join(d, "C")
        os.makedirs(os.path.join(w, "deep", "er"))
        spec = (("k1", 1_500_000_000, "."), ("k2", 1_600_000_000, "deep"), ("k3", 1_400_000_000, "deep/er"))
        for n, t, sub in spec:
            p = os.path.join(w, sub, n)
            open(p, "wb").write(b"P" * 300)
            os.utime(p, (t, t))
        check("--priority most-recently-modified", w, ["-n", "2", "."], ["--priority", "most-recently-modified"], ["k2"], env)
        check("--priority least-recently-modified", w, ["-n", "2", "."], ["--priority", "least-recently-modified"], ["k3"], env)
        check("--priority most-nested", w, ["-n", "2", "."], ["--priority", "most-nested"], ["k3"], env)
        check("--priority least-nested", w, ["-n", "2", "."], ["--priority", "least-nested"], ["k1"], env)
        check("--priority most-recently-modified, n = 1", w, ["."], ["--priority", "most-recently-modified"], ["k2", "k1"], env)
        check("--priority most-nested with -n 2 given to remove", w, ["."], ["-n", "2", "--priority", "most-nested"], ["k3"], env)
        check("--priority least-recently-modified, n = 1", w, ["."], ["--priority", "least-recently-modified"], ["k3", "k1"], env)
        # a hard-link set with paths at different depths and a single replica in between
        w2 = os.path.join(d, "C2")
        os.makedirs(os.path.join(w2, "x", "p", "q", "r"))
        os.makedirs(os.path.join(w2, "y", "z"))
        open(os.path.join(w2, "x", "shallow"), "wb").write(b"N" * 350)
        os.link(os.path.join(w2, "x", "shallow"), os.path.join(w2, "x", "p", "q", "r", "deep"))
        open(os.path.join(w2, "y", "z", "middle"), "wb").write(b"N" * 350)
        check("--priority least-nested ranks a hard-link set by its shallowest path", w2, ["."], ["--priority", "least-nested"], ["deep", "shallow"], env)
        check("--priority most-nested ranks a hard-link set by its deepest path", w2, ["."], ["--priority", "most-nested"], ["deep", "shallow"], env)
        # names that are not valid UTF-8 are matched through their lossy form by every pattern option
        w3 = os.fsencode(os.path.join(d, "C3"))
        os.makedirs(os.path.join(w3, b"a"))
        os.makedirs(os.path.join(w3, b"b"))
        open(os.path.join(w3, b"a", b"orig.dat"), "wb").write(b"J" * 222)
        open(os.path.join(w3, b"b", b"p\xffc.jpg"), "wb").write(b"J" * 222)
        check("--keep-name protects a file whose name is not valid UTF-8", os.fsdecode(w3), ["."], ["--keep-name", "*.jpg"], ["orig.dat"], env)
        check("--name selects a file whose name is not valid UTF-8", os.fsdecode(w3), ["."], ["--name", "*.jpg", "--priority", "bottom"], [], env) if False else None
        # ties under a nesting priority keep the report order (first listed kept)
        w4 = os.path.join(d, "C4")
        for sub in ("a", "b", "c", "deep/er"):
            os.makedirs(os.path.join(w4, sub))
        for sub, n in (("a", "t1"), ("b", "t2"), ("c", "t3"), ("deep/er", "t4")):
            open(os.path.join(w4, sub, n), "wb").write(b"T" * 280)
        check("--priority least-nested with three replicas at the same depth, -n 3", w4, ["."], ["-n", "3", "--priority", "least-nested"], ["t3"], env)
        check("--priority least-nested with three replicas at the same depth, -n 2", w4, ["."], ["-n", "2", "--priority", "least-nested"], ["t2", "t3"], env)
        check("--priority most-nested with three replicas at the same depth, -n 2", w4, ["."], ["-n", "2", "--priority", "most-nested"], ["t3", "t4"], env)
        check("chained priorities: the first one dominates", w, ["."], ["--priority", "least-recently-modified", "--priority", "most-nested"], ["k3", "k1"], env)
    finally:
        shutil.rmtree(d, ignore_errors=True)
    _memo[("c08", binary)] = devs
    return devs


# ------------------------------------------------------------------ C04: a stale report never removes changed data

def c04_battery(binary):
    """group, then one ordinary file operation on one member (same-length rewrite, append, truncate, delete, replace by directory /
    symlink, recreate), then remove / link with the default --modified-before: every content that a file had when the dedupe command
    started and that is gone from that path afterwards must still be stored in some regular file.  Run in UTC and in zones east / west."""
    import time
    if ("c04", binary) in _memo:
        return _memo[("c04", binary)]
    devs = []

    def edits():
        def rewrite(p):
            with open(p, "r+b") as f:
                f.seek(10)
                f.write(b"Z")

        def append(p):
            with open(p, "ab") as f:
                f.write(b"tail")

        def truncate(p):
            with open(p, "r+b") as f:
                f.truncate(50)

        def delete(p):
            os.remove(p)

        def to_dir(p):
            os.remove(p)
            os.makedirs(p)

        def to_symlink(p):
            os.remove(p)
            os.symlink("/etc/hostname", p)

        def recreate(p):
            os.remove(p)
            open(p, "wb").write(b"R" * 300)
        return [("same-length rewrite", rewrite), ("append", append), ("truncate", truncate), ("delete", delete), ("replace by a directory", to_dir),
                ("replace by a symlink", to_symlink), ("delete and recreate with other content of the same length", recreate)]

    def inventory(root):
        inv = {}
        for dp, dn, fn in os.walk(root):
            for n in fn:
                p = os.path.join(dp, n)
                if os.path.islink(p) or not os.path.isfile(p):
                    inv[p] = None
                else:
                    inv[p] = open(p, "rb").read()
        return inv

    combos = [(tz, op, [], False) for tz in ("UTC", "Asia/Tokyo", "America/New_York") for op in (["remove"], ["link"], ["link", "--soft"])]
    # a report made with a transform (the size check is switched off for it) and edits placed in the same second as the scan
    combos = [("UTC", ["remove"], ["--transform", "cat"], False), ("UTC", ["link"], ["--transform", "cat"], False), ("UTC", ["remove"], [], True)] + combos
    # the report is made in one zone and processed in another (POSIX zone strings: AAA-9 is UTC+9, BBB+5 is UTC-5)
    combos = [(("AAA-9", "UTC"), ["remove"], [], False), (("AAA-2", "UTC"), ["link"], [], False), (("UTC", "BBB+5"), ["remove"], [], False),
              (("AAA-3", "AAA-1"), ["link", "--soft"], [], False),
              # a UTC offset that is not a whole number of minutes (the report header records minutes only)
              (("XXX-0:19:29", "XXX-0:19:29"), ["remove"], [], False), (("XXX+5:00:40", "UTC"), ["link"], [], False)] + combos
    for tz, op, gargs, align in combos:
        tz_group, tz_dedupe = tz if isinstance(tz, tuple) else (tz, tz)
        if True:
            for ename, edit in edits():
                for member in ("a.bin", "b.bin", "c.bin"):
                    if (gargs or align or isinstance(tz, tuple)) and ename not in ("same-length rewrite", "delete and recreate with other content of the same length"):
                        continue
                    d, root = fresh("c04b.")
                    env = dict(mkenv(d), TZ=tz_group)
                    env2 = dict(env, TZ=tz_dedupe)
                    try:
                        for n in ("a.bin", "b.bin", "c.bin"):
                            p = os.path.join(root, n)
                            open(p, "wb").write(b"C" * 300)
                            old = time.time() - 1000
                            os.utime(p, (old, old))
                        rep = os.path.join(d, "rep.txt")
                        if align:
                            # start right after a second has begun, so that the scan and the edit fall into the same second
                            time.sleep(1.02 - (time.time() % 1.0))
                        with open(rep, "wb") as f:
                            subprocess.run([binary, "group"] + gargs + [root], stdout=f, stderr=subprocess.PIPE, env=env, timeout=60)
                        edit(os.path.join(root, member))
                        before = inventory(root)
                        with open(rep, "rb") as f:
                            subprocess.run([binary] + op, stdin=f, stdout=subprocess.PIPE, stderr=subprocess.PIPE, env=env2, timeout=60)
                        after = inventory(root)
                        kept = {v for v in after.values() if v is not None}
                        for p, content in before.items():
                            if content is None:
                                continue
                            now = after.get(p, "gone")
                            if now != content and content not in kept:
                                devs.append({"tz": tz if not isinstance(tz, tuple) else "group in %s, dedupe in %s" % tz, "cmd": " ".join(op), "group_options": gargs, "edit": "%s of %s right after `group`" % (ename, member),
                                             "lost": "the content %r.. of %s is stored nowhere after the dedupe command" % (content[:12], os.path.basename(p))})
                    finally:
                        shutil.rmtree(d, ignore_errors=True)
                    if len(devs) > 4:
                        _memo[("c04", binary)] = devs
                        return devs
    # --isolate: the files under one root form one sub-group although they are different files; a rewrite of the *second* file of
    # a root that is dropped as a whole must still stop the group
    for op in (["remove"], ["link"]):
        for victim in ("extra/x2.bin", "extra/x1.bin", "keep/k1.bin"):
            d, root = fresh("c04b.")
            env = dict(mkenv(d), TZ="UTC")
            try:
                for rel in ("keep/k1.bin", "extra/x1.bin", "extra/x2.bin"):
                    p = os.path.join(root, rel)
                    os.makedirs(os.path.dirname(p), exist_ok=True)
                    open(p, "wb").write(b"I" * 400)
                    old = time.time() - 1000
                    os.utime(p, (old, old))
                rep = os.path.join(d, "rep.txt")
                with open(rep, "wb") as f:
                    subprocess.run([binary, "group", "--isolate", os.path.join(root, "keep"), os.path.join(root, "extra")], stdout=f, stderr=subprocess.PIPE, env=env, timeout=60)
                with open(os.path.join(root, victim), "r+b") as f:
                    f.seek(7)
                    f.write(b"Z")
                before = inventory(root)
                with open(rep, "rb") as f:
                    subprocess.run([binary] + op, stdin=f, stdout=subprocess.PIPE, stderr=subprocess.PIPE, env=env, timeout=60)
                after = inventory(root)
                kept = {v for v in after.values() if v is not None}
                for p, content in before.items():
                    if content is not None and after.get(p, "gone") != content and content not in kept:
                        devs.append({"tz": "UTC", "cmd": " ".join(op), "group_options": ["--isolate", "keep", "extra"], "edit": "same-length rewrite of %s right after `group`" % victim,
                                     "lost": "the content %r.. of %s is stored nowhere after the dedupe command" % (content[:12], os.path.relpath(p, root))})
            finally:
                shutil.rmtree(d, ignore_errors=True)
    _memo[("c04", binary)] = devs
    return devs


# ------------------------------------------------------------------ C07: group and --dry-run leave the scanned tree untouched

def _snapshot(root):
    snap = {}
    for dp, dn, fn in os.walk(root):
        for n in dn + fn:
            p = os.path.join(dp, n)
            st = os.lstat(p)
            data = None
            if os.path.islink(p):
                data = os.readlink(p)
            elif os.path.isfile(p):
                data = open(p, "rb").read()
            snap[os.path.relpath(p, root)] = (st.st_mode, st.st_ino, st.st_nlink, st.st_mtime_ns, st.st_size, data)
    return snap


def c07_battery(binary):
    """snapshot (paths, bytes, inodes, link counts, mtimes) of a tree with copies, a hard-link pair and a symlink, before and after
    `group` in every transform I/O mode (with the temp dir on the same file system) and after every dedupe command with --dry-run
    (with and without -o FILE); the temp dir must be empty afterwards"""
    if ("c07", binary) in _memo:
        return _memo[("c07", binary)]
    devs = []
    d, root = fresh("c07b.")
    env = mkenv(d)
    tmpd = env["TMPDIR"]
    try:
        for sub in ("x", "y"):
            os.makedirs(os.path.join(root, sub))
        for i, rel in enumerate(("x/one.bin", "x/two.bin", "y/one.bin", "y/three.bin")):
            open(os.path.join(root, rel), "wb").write(b"DATA" * 400)
        open(os.path.join(root, "x/uniq.bin"), "wb").write(b"U" * 999)
        os.link(os.path.join(root, "x/one.bin"), os.path.join(root, "x/one_link.bin"))
        os.symlink("one.bin", os.path.join(root, "y/sym"))
        for dp, dn, fn in os.walk(root):
            for n in fn:
                p = os.path.join(dp, n)
                if not os.path.islink(p):
                    os.utime(p, (1_500_000_000, 1_500_000_000))
        snap0 = _snapshot(root)

        def check(tag, args, stdin=None):
            r = subprocess.run([binary] + args, stdin=stdin, stdout=subprocess.PIPE, stderr=subprocess.PIPE, env=env, timeout=120, cwd=os.path.join(root, "y"))
            snap1 = _snapshot(root)
            if snap1 != snap0:
                changed = sorted(k for k in set(snap0) | set(snap1) if snap0.get(k) != snap1.get(k))
                devs.append({"cmd": tag, "changed_paths": changed[:5]})
                return r
            left = os.listdir(tmpd)
            if left:
                devs.append({"cmd": tag, "temp_files_left": left[:3]})
            return r
        # a program that leaves a by-product next to its private $IN copy (sed -i.bak, exiftool's _original): the per-run temp dir
        # must still be gone afterwards
        check("group --transform 'sed -i.bak 1d $IN' --in-place", ["group", "--transform", "sed -i.bak 1d $IN", "--in-place", root])
        check("group --transform 'cp $IN $IN.side' (by-product next to the private copy)", ["group", "--transform", "sh -c 'cp $IN $IN.side; cat $IN'", root])
        # the cache location must not depend on a relative / empty XDG_CACHE_HOME (the XDG spec says such values are ignored): run
        # from inside the tree, a relative database path would create files there
        for xdg in ("", "relcache", "./"):
            saved = dict(env)
            env["XDG_CACHE_HOME"] = xdg
            check("group --cache with XDG_CACHE_HOME=%r, run from inside the tree" % xdg, ["group", "--cache", root])
            env.clear()
            env.update(saved)
        for tr in ("cat", "cat $IN", "cp $IN $OUT", "dd if=$IN of=$OUT", "truncate -s 4 $IN", "sh -c true $IN", "dd of=$IN count=0 status=none", "dd of=$OUT status=none"):
            writes_in = "truncate" in tr or "of=$IN" in tr          # the documented exception: such a program under --no-copy
            for extra in ([], ["--in-place"], ["--no-copy"] if "$IN" in tr and not writes_in else []):
                if extra == ["--in-place"] and "$OUT" in tr:
                    continue
                check("group --transform '%s' %s" % (tr, " ".join(extra)), ["group", "--transform", tr] + extra + [root])
                if devs:
                    break
            if devs:
                break
        for extra in ([], ["--cache"], ["-o", os.path.join(d, "out.txt")], ["--threads", "1"]):
            check("group %s" % " ".join(extra), ["group"] + extra + [root])
        # the private copy of a file cannot be made (the creation / the copying of the temp file fails): still nothing may change
        shim = os.path.join(d, "faultfs.so")
        here = os.path.dirname(os.path.abspath(__file__))
        if subprocess.run(["clang", "-shared", "-fPIC", "-O1", "-o", shim, os.path.join(here, "faultfs.c"), "-ldl"], stderr=subprocess.PIPE).returncode == 0:
            base_env = dict(env)
            for plan in ("create:1", "create:2", "copy:1", "create:1,create:2,create:3,create:4,create:5,create:6"):
                for errno_ in ("EIO", "ENOSPC", "EACCES"):
                    env.clear()
                    env.update(base_env, LD_PRELOAD=shim, VERIF_ARMED="1", FAULT_PLAN=plan, FAULT_ERRNO=errno_)
                    check("group --transform 'cat $IN' with a failing temp copy (%s %s)" % (plan, errno_), ["group", "--transform", "cat $IN", root])
            env.clear()
            env.update(base_env)
        rep = os.path.join(d, "rep.txt")
        with open(rep, "wb") as f:
            subprocess.run([binary, "group", root], stdout=f, stderr=subprocess.PIPE, env=env, timeout=60)
        for op in (["remove"], ["link"], ["link", "--soft"], ["dedupe"], ["move", os.path.join(d, "moved")], ["move", os.path.join(root, "new_dir", "2026")],
                   ["move", os.path.join(root, "x", "archive")]):
            for extra in ([], ["-o", os.path.join(d, "script.sh")]):
                with open(rep, "rb") as f:
                    check(" ".join(op + ["--dry-run"] + extra), op + ["--dry-run"] + extra, stdin=f)
    finally:
        shutil.rmtree(d, ignore_errors=True)
    _memo[("c07", binary)] = devs
    return devs


# ------------------------------------------------------------------ C20: files locked by another process are left alone, the rest is processed

def c20_battery(binary):
    """a helper process holds an fcntl lock (exclusive whole file, shared whole file, a range inside, a range beyond the end) on one
    droppable member of a group of five while remove / link / link --soft / move run: the locked file keeps its inode and content, a
    warning names it, and every other droppable file of that group and of another group is processed"""
    import sys
    import time
    if ("c20", binary) in _memo:
        return _memo[("c20", binary)]
    devs = []
    holder_src = ("import fcntl,sys,time,os\nkind=sys.argv[2]\nf=open(sys.argv[1],'rb' if kind=='shared' else 'r+b')\n"
                  "if kind=='whole': fcntl.lockf(f,fcntl.LOCK_EX)\n"
                  "elif kind=='shared': fcntl.lockf(f,fcntl.LOCK_SH)\n"
                  "elif kind=='beyond': fcntl.lockf(f,fcntl.LOCK_EX,510,0x40000002,os.SEEK_SET)\n"
                  "else: fcntl.lockf(f,fcntl.LOCK_EX,10,100,os.SEEK_SET)\n"
                  "print('locked',flush=True)\ntime.sleep(120)")
    for op in ("remove", "link", "soft", "move"):
        for kind in ("whole", "shared", "inside", "beyond", "whole-readonly", "whole-other-perms"):
            d, root = fresh("c20b.")
            env = mkenv(d)
            try:
                files = []
                for i in range(5):
                    p = os.path.join(root, "f%d.bin" % i)
                    open(p, "wb").write(b"F" * 5000)
                    files.append(p)
                for i in range(3):
                    p = os.path.join(root, "g%d.bin" % i)
                    open(p, "wb").write(b"G" * 3000)
                    files.append(p)
                for p in files:
                    old = time.time() - 500
                    os.utime(p, (old, old))
                rep = os.path.join(d, "rep.txt")
                with open(rep, "wb") as f:
                    subprocess.run([binary, "group", "--threads", "1", root], stdout=f, stderr=subprocess.PIPE, env=env, timeout=60)
                args = {"remove": ["remove"], "link": ["link"], "soft": ["link", "--soft"], "move": ["move", os.path.join(d, "moved")]}[op]
                with open(rep, "rb") as f:
                    dr = subprocess.run([binary] + args + ["--dry-run"], stdin=f, stdout=subprocess.PIPE, stderr=subprocess.PIPE, env=env, timeout=60)
                # droppable files in script order = last path of every command's first line
                order = []
                for l in dr.stdout.decode(errors="replace").splitlines():
                    w = l.rstrip().split(" ")
                    if len(w) >= 2 and w[0] in ("rm", "mv") and w[1] in files and w[1] not in order:
                        order.append(w[1])
                droppable = order
                if len(droppable) < 4:
                    continue
                victim = droppable[0]
                before = {p: (os.lstat(p).st_ino, open(p, "rb").read()) for p in files}
                holder = subprocess.Popen([sys.executable, "-c", holder_src, victim, kind.split("-")[0]], stdout=subprocess.PIPE)
                holder.stdout.readline()
                if kind == "whole-readonly":
                    os.chmod(victim, 0o444)       # the permission bits of the locked file say nothing about the lock
                elif kind == "whole-other-perms":
                    os.chmod(victim, 0o600)
                with open(rep, "rb") as f:
                    rr = subprocess.run([binary] + args + ["--threads", "1"] if False else [binary] + args, stdin=f, stdout=subprocess.PIPE, stderr=subprocess.PIPE, env=env, timeout=120)
                holder.kill()
                holder.wait()
                err = rr.stderr.decode(errors="replace")

                def untouched(p):
                    try:
                        return not os.path.islink(p) and (os.lstat(p).st_ino, open(p, "rb").read()) == before[p]
                    except OSError:
                        return False
                if not untouched(victim):
                    devs.append({"op": op, "foreign_lock": kind, "problem": "the locked file %s was processed" % os.path.basename(victim), "stderr": err[-200:]})
                    continue
                if os.path.basename(victim) not in err:
                    devs.append({"op": op, "foreign_lock": kind, "problem": "no warning names the locked file"})
                left = [os.path.basename(p) for p in droppable[1:] if untouched(p)]
                if left:
                    devs.append({"op": op, "foreign_lock": kind, "problem": "droppable files after the locked one were not processed", "unprocessed": left,
                                 "summary": [l for l in err.splitlines() if "Processed" in l][-1:]})
            finally:
                shutil.rmtree(d, ignore_errors=True)
            if len(devs) > 4:
                break
        if len(devs) > 4:
            break
    _memo[("c20", binary)] = devs
    return devs


# ------------------------------------------------------------------ C18: move maps injectively and never overwrites

def c18_battery(binary):
    """`move DIR` with an absolute and a relative DIR (run from another directory than `group`), DIR inside the scanned tree, names with
    ':' and non-UTF-8 bytes, DIR pre-populated with a regular file / a symlink to a live file at a target path: every moved file is at
    DIR/<its absolute path>, bytes preserved; whatever existed under DIR is unchanged and its source stays"""
    if ("c18", binary) in _memo:
        return _memo[("c18", binary)]
    devs = []

    def scenario(tag, relative, inside, prepopulate, dotdot=False):
        d, root = fresh("c18b.")
        env = mkenv(d)
        try:
            scan = os.path.join(d, "scan")
            work = os.path.join(d, "work")
            os.makedirs(scan)
            os.makedirs(work)
            names = [b"keep/a.bin", b"dup/a:b", b"dup/ab", b"dup/c\xffd", b"dup/c\xfed", b"dup/plain"]
            for i, n in enumerate(names):
                p = os.path.join(os.fsencode(scan), n)
                os.makedirs(os.path.dirname(p), exist_ok=True)
                open(p, "wb").write(b"M" * 4000)
            rep = os.path.join(d, "rep.txt")
            with open(rep, "wb") as f:
                subprocess.run([binary, "group", "scan"], cwd=d, stdout=f, stderr=subprocess.PIPE, env=env, timeout=60)
            target_abs = os.path.join(scan, "archive") if inside else os.path.join(work, "out")
            target_arg = "out" if relative else target_abs
            cwd = work if relative else d
            if dotdot:
                # DIR = cur/../out where cur is a symlink to a directory elsewhere: the operating system resolves `..` after the link
                os.makedirs(os.path.join(d, "archive", "2024"))
                os.symlink(os.path.join(d, "archive", "2024"), os.path.join(work, "cur"))
                target_abs = os.path.join(d, "archive", "out")
                target_arg = "cur/../out"
                cwd = work
            real_scan = os.path.realpath(scan)
            live = os.path.join(d, "live_target_of_link")
            open(live, "wb").write(b"LIVE")
            pre = {}
            if prepopulate:
                for n, kind in ((b"dup/ab", "file"), (b"dup/plain", "symlink")):
                    tp = os.path.join(os.fsencode(target_abs), os.fsencode(real_scan).lstrip(b"/"), n)
                    os.makedirs(os.path.dirname(tp), exist_ok=True)
                    if kind == "file":
                        open(tp, "wb").write(b"PRECIOUS")
                    else:
                        os.symlink(live, tp)
                    pre[tp] = kind
            with open(rep, "rb") as f:
                rr = subprocess.run([binary, "move", target_arg], cwd=cwd, stdin=f, stdout=subprocess.PIPE, stderr=subprocess.PIPE, env=env, timeout=120)
            for tp, kind in pre.items():
                ok = (open(tp, "rb").read() == b"PRECIOUS" and not os.path.islink(tp)) if kind == "file" else (os.path.islink(tp) and os.readlink(tp) == os.fsencode(live))
                if not ok or open(live, "rb").read() != b"LIVE":
                    devs.append({"scenario": tag, "problem": "something that existed under DIR was replaced or altered", "path": repr(tp[-40:]), "kind": kind})
            moved = 0
            for n in names:
                src = os.path.join(os.fsencode(scan), n)
                tgt = os.path.join(os.fsencode(target_abs), os.fsencode(real_scan).lstrip(b"/"), n)
                if os.path.lexists(src):
                    continue
                moved += 1
                if tgt in pre:
                    devs.append({"scenario": tag, "problem": "the source of a refused move is gone", "source": repr(n)})
                elif not os.path.isfile(tgt) or open(tgt, "rb").read() != b"M" * 4000:
                    where = [os.path.join(dp, x) for dp, dn, fn in os.walk(os.fsencode(d)) for x in fn if x == os.path.basename(n) and b"scan/dup" not in dp]
                    devs.append({"scenario": tag, "problem": "a moved file is not at DIR/<absolute path of the source>", "source": repr(n), "expected": repr(tgt[-60:]),
                                 "found_at": [repr(w[-60:]) for w in where][:2]})
            if moved == 0:
                devs.append({"scenario": tag, "problem": "nothing was moved", "stderr": rr.stderr.decode(errors="replace")[-200:]})
        finally:
            shutil.rmtree(d, ignore_errors=True)
    scenario("absolute DIR", False, False, False)
    scenario("relative DIR, move run from another directory than group", True, False, False)
    scenario("DIR inside the scanned tree", False, True, False)
    scenario("DIR pre-populated with a file and a symlink at target paths", False, False, True)
    scenario("relative DIR, pre-populated", True, False, True)
    scenario("relative DIR with `..` after a symlinked component", True, False, False, dotdot=True)
    _memo[("c18", binary)] = devs
    return devs


# ------------------------------------------------------------------ C02: links of every kind in the groups, every command

def c02_battery(binary):
    """trees in which a duplicate group contains symbolic links (relative / absolute, sorted before / after their target, in the same
    or another directory) or hard links, reported by `group` with and without --symbolic-links, processed by every dedupe command;
    oracle = the statement of C02 read off the disk: every content still stored in a regular file, every original path of a link
    command still reads back its bytes, moved bytes readable under the target, one replica per group untouched, bystanders untouched"""
    if ("c02", binary) in _memo:
        return _memo[("c02", binary)]
    devs = []
    DATA = b"precious-content-0123456789\n" * 20

    def t_rel_first(r):
        os.symlink("photo.jpg", os.path.join(r, "archive", "aa_latest"))

    def t_rel_last(r):
        os.symlink("photo.jpg", os.path.join(r, "archive", "zz_latest"))

    def t_abs_first(r):
        os.symlink(os.path.join(r, "archive", "photo.jpg"), os.path.join(r, "archive", "aa_abs"))

    def t_rel_otherdir(r):
        os.makedirs(os.path.join(r, "a_links"))
        os.symlink("../archive/photo.jpg", os.path.join(r, "a_links", "shortcut"))

    def t_chain(r):
        os.symlink("photo.jpg", os.path.join(r, "archive", "ab_mid"))
        os.symlink("ab_mid", os.path.join(r, "archive", "aa_top"))

    def t_hard(r):
        os.link(os.path.join(r, "archive", "photo.jpg"), os.path.join(r, "archive", "aa_hard"))

    def t_link_to_copy(r):
        os.symlink("../backup/copy.jpg", os.path.join(r, "archive", "aa_tocopy"))

    def t_only_link(r):
        # the first root holds nothing but a symlink to the replica in the other root
        os.remove(os.path.join(r, "archive", "photo.jpg"))
        os.symlink("../backup/copy.jpg", os.path.join(r, "archive", "aa_only"))

    def t_only_abs_link(r):
        os.remove(os.path.join(r, "archive", "photo.jpg"))
        os.symlink(os.path.join(r, "backup", "copy.jpg"), os.path.join(r, "archive", "aa_only_abs"))

    def read(p):
        try:
            with open(p, "rb") as f:
                return f.read()
        except OSError:
            return None

    def scan(top):
        out = {}
        for dp, dn, fn in os.walk(top):
            for n in fn:
                p = os.path.join(dp, n)
                s = os.lstat(p)
                out[p] = (os.path.islink(p), (s.st_dev, s.st_ino), s.st_mtime_ns, read(p))
        return out

    for tname, extra in (("relative symlink sorted before its target", t_rel_first), ("relative symlink sorted after its target", t_rel_last),
                         ("absolute symlink sorted before its target", t_abs_first), ("relative symlink in another directory", t_rel_otherdir),
                         ("chain of two relative symlinks", t_chain), ("hard link next to the file", t_hard),
                         ("symlink to the other replica", t_link_to_copy), ("a root that holds only a relative symlink to the replica in the other root", t_only_link),
                         ("a root that holds only an absolute symlink to the replica in the other root", t_only_abs_link)):
        for gargs in (["-S"], [], ["-S", "--hidden"], ["-S", "--isolate", "@R"], ["--isolate", "@R"]):
            for cmd in (["link"], ["link", "--soft"], ["remove"], ["move"], ["dedupe"], ["link", "--priority", "top"], ["remove", "--priority", "bottom"]):
                d, root = fresh("c02b.")
                env = mkenv(d)
                try:
                    os.makedirs(os.path.join(root, "archive"))
                    os.makedirs(os.path.join(root, "backup"))
                    for rel in ("archive/photo.jpg", "backup/copy.jpg"):
                        with open(os.path.join(root, rel), "wb") as f:
                            f.write(DATA)
                    with open(os.path.join(root, "backup", "bystander"), "wb") as f:
                        f.write(DATA[:-1] + b"X")
                    extra(root)
                    old = time.time() - 7200
                    for p in list(scan(root)):
                        if not os.path.islink(p):
                            os.utime(p, (old, old))
                    before = scan(root)
                    if "@R" in gargs:
                        g = _run(binary, ["group"] + [a for a in gargs if a != "@R"] + [os.path.join(root, "archive"), os.path.join(root, "backup")], env)
                    else:
                        g = _run(binary, ["group"] + gargs + [root], env)
                    if g.returncode != 0 or not g.stdout:
                        continue
                    tgt = os.path.join(d, "moved")
                    argv = cmd + ([tgt] if cmd[0] == "move" else [])
                    r = _run(binary, argv, env, stdin=g.stdout)
                    after = scan(root)
                    moved = scan(tgt) if os.path.isdir(tgt) else {}
                    what = {"tree": tname, "group": gargs, "command": argv[:1] + cmd[1:]}
                    # every content still stored in a regular file
                    stored = {v[3] for v in list(after.values()) + list(moved.values()) if not v[0] and v[3] is not None}
                    for p, v in before.items():
                        if not v[0] and v[3] not in stored:
                            devs.append(dict(what, problem="the content of %s is no longer stored in any regular file" % os.path.relpath(p, root)))
                    # link commands: every original path reads back its bytes
                    if cmd[0] in ("link", "dedupe"):
                        for p, v in before.items():
                            if read(p) != v[3]:
                                devs.append(dict(what, problem="%s no longer reads back its bytes (now: %s)" % (
                                    os.path.relpath(p, root), "symlink -> " + os.readlink(p) if os.path.islink(p) else ("missing" if not os.path.lexists(p) else "other bytes"))))
                    if cmd[0] == "move":
                        for p, v in before.items():
                            if not os.path.lexists(p) and v[3] not in {m[3] for m in moved.values()}:
                                devs.append(dict(what, problem="%s was moved but its bytes are not readable under the target directory" % os.path.relpath(p, root)))
                    # one replica left completely untouched
                    untouched = [p for p, v in before.items() if not v[0] and v[3] == DATA and p in after and after[p][:3] == v[:3]]
                    if not untouched:
                        devs.append(dict(what, problem="no replica of the group was left untouched"))
                    b = os.path.join(root, "backup", "bystander")
                    if after.get(b) != before.get(b):
                        devs.append(dict(what, problem="a file outside the reported groups was modified"))
                    if b"panicked" in r.stderr:
                        devs.append(dict(what, problem="panic: " + r.stderr.decode(errors="replace").strip().splitlines()[0][:160]))
                finally:
                    shutil.rmtree(d, ignore_errors=True)
                if len(devs) > 8:
                    break
    _memo[("c02", binary)] = devs
    return devs


# ------------------------------------------------------------------ C10: reports that are large or cut the look-ahead inside a character

def c10_battery(binary):
    """a report written by `group` is accepted by the dedupe commands and yields the same groups: (i) one group of 1100 files (more
    paths than any fixed preallocation), text and JSON; (ii) reports longer than the 16 KiB look-ahead of open_report whose byte 16384
    falls inside a multi-byte character of a file name (directory name padded byte by byte until it does)"""
    if ("c10", binary) in _memo:
        return _memo[("c10", binary)]
    devs = []

    def rm_lines(rep_bytes, env, cwd):
        r = subprocess.run([binary, "remove", "--dry-run"], input=rep_bytes, stdout=subprocess.PIPE, stderr=subprocess.PIPE, env=env, cwd=cwd, timeout=300)
        return r.returncode, len([l for l in r.stdout.splitlines() if l.startswith(b"rm ")]), r.stderr.decode(errors="replace").strip().splitlines()[-1:]

    d, root = fresh("c10b.")
    env = mkenv(d)
    try:
        big = os.path.join(root, "big")
        os.makedirs(big)
        n = 1100
        for i in range(n):
            with open(os.path.join(big, "f%04d" % i), "wb") as f:
                f.write(b"same content\n")
        for fmt in ("default", "json"):
            g = _run(binary, ["group", "-f", fmt, big], env)
            rc, k, last = rm_lines(g.stdout, env, root)
            if rc != 0 or k != n - 1:
                devs.append({"scenario": "one group of %d files, %s report" % (n, fmt), "exit": rc, "rm_commands": k, "documented": n - 1, "stderr": last})
        shutil.rmtree(big, ignore_errors=True)
        for pad in range(0, 4):
            for fmt in ("default", "json"):
                base = os.path.join(root, "p" + "x" * pad + fmt)
                os.makedirs(base)
                ngroups = 60
                for i in range(ngroups):
                    for side in ("左", "右"):
                        with open(os.path.join(base, "文件名称测试数据%03d%s.dat" % (i, side)), "wb") as f:
                            f.write(b"%04d" % i * 25)
                g = _run(binary, ["group", "-f", fmt, base], env)
                data = g.stdout
                split = False
                if len(data) > 16384:
                    try:
                        data[:16384].decode("utf-8")
                    except UnicodeDecodeError:
                        split = True
                rc, k, last = rm_lines(data, env, root)
                if rc != 0 or k != ngroups:
                    devs.append({"scenario": "report of %d bytes, %s format, byte 16384 %s a character" % (len(data), fmt, "splits" if split else "does not split"),
                                 "exit": rc, "rm_commands": k, "documented": ngroups, "stderr": last})
                shutil.rmtree(base, ignore_errors=True)
    finally:
        shutil.rmtree(d, ignore_errors=True)
    _memo[("c10", binary)] = devs
    return devs
