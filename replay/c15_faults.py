#!/usr/bin/env python3
"""Native replay for C15: runs the real binary on a scenario tree under the path-keyed fault shim (readfault.c) and compares
the groups with those of the same binary, without faults, on the tree that lacks the failing entries.
usage: c15_faults.py <fclones binary> <work dir>      prints one JSON line {runs, deviations}"""
import json
import os
import shutil
import subprocess
import sys

HERE = os.path.dirname(os.path.abspath(__file__))

A = bytes((i * 7 + 3) % 251 for i in range(200 * 1024))
C = b"small duplicate content " * 3
H = bytes((i * 13 + 5) % 241 for i in range(200 * 1024))

BIG = 65 * 1024 * 1024   # above the 64 MiB suffix threshold of non-SSD devices (sparse files)


class Sparse:
    def __init__(self, head, tail):
        self.head, self.tail = head, tail


BIGA = Sparse(b"big A head " * 1500, b"big A tail " * 1500)
BIGH = Sparse(b"big H head " * 1500, b"big H tail " * 1500)

# relative path -> (content, faulty?)
FILES = {
    "d1/a.bin": (A, False), "d2/a_copy.bin": (A, False),
    "d1/b_FAILREAD.bin": (A, True),
    "d3/c1.bin": (C, False), "d3/c2.bin": (C, False), "d3/c3_FAILOPEN.bin": (C, True),
    "d4_FAILDIR/e1.bin": (A, True),
    "d5/f_FAILSTAT.bin": (A, True), "d5/g_VANISHED.bin": (C, True),
    "d7/h1_FAILREAD.bin": (H, True), "d7/h2_FAILREAD.bin": (H, True),
    "big/a1.bin": (BIGA, False), "big/a2.bin": (BIGA, False), "big/b_FAILREAD.bin": (BIGA, True),
    "big/h1_FAILREAD.bin": (BIGH, True), "big/h2_FAILREAD.bin": (BIGH, True),
}
LINKS = {"d6/l_FAILLINK": ("d1/a.bin", True), "d6/ok_link": ("d3/c1.bin", False)}
K = bytes((i * 11 + 1) % 239 for i in range(150 * 1024))
K2 = bytes((i * 17 + 2) % 233 for i in range(150 * 1024))
FILES.update({"d8/mm_name.bin": (K, False), "d8/copy.bin": (K, False), "d9/mm_name.bin": (K2, False), "d9/copy.bin": (K2, False)})
# (a read error of the data is a property of the inode, not of one name: only name-level faults - open refused, name vanished - are
# injected on single names of a hard-link set)
# other names (hard links) of healthy files that cannot be opened / have vanished: the healthy names must be grouped as without them
HARDLINKS = {"d8/aa_FAILOPEN.bin": ("d8/mm_name.bin", True), "d8/zz_FAILOPEN.bin": ("d8/mm_name.bin", True),
             "d9/aa_FAILOPEN.bin": ("d9/mm_name.bin", True)}


def build(root, with_faulty):
    for rel, (data, faulty) in FILES.items():
        if faulty and not with_faulty:
            continue
        p = os.path.join(root, rel)
        os.makedirs(os.path.dirname(p), exist_ok=True)
        with open(p, "wb") as f:
            if isinstance(data, Sparse):
                f.write(data.head)
                f.seek(BIG - len(data.tail))
                f.write(data.tail)
            else:
                f.write(data)
    for rel, (target, faulty) in LINKS.items():
        if faulty and not with_faulty:
            continue
        p = os.path.join(root, rel)
        os.makedirs(os.path.dirname(p), exist_ok=True)
        os.symlink(os.path.join(root, target), p)
    for rel, (target, faulty) in HARDLINKS.items():
        if faulty and not with_faulty:
            continue
        os.link(os.path.join(root, target), os.path.join(root, rel))


def groups(binary, roots, base, opts, env, stdin_roots=False):
    if stdin_roots:
        r = subprocess.run([binary, "group", "-f", "json", "--stdin"] + opts, input=("\n".join(roots) + "\n").encode(),
                           stdout=subprocess.PIPE, stderr=subprocess.PIPE, env=env, timeout=180)
    else:
        r = subprocess.run([binary, "group", "-f", "json"] + opts + roots, stdout=subprocess.PIPE, stderr=subprocess.PIPE, env=env, timeout=180)
    try:
        j = json.loads(r.stdout.decode())
        gs = sorted(sorted(os.path.relpath(f, base) for f in g["files"]) for g in j.get("groups", []))
    except Exception:
        gs = None
    return r.returncode, gs, r.stderr.decode(errors="replace")


def main():
    binary, work = sys.argv[1], sys.argv[2]
    d = os.path.join(work, "c15replay")
    shutil.rmtree(d, ignore_errors=True)
    os.makedirs(d)
    shim = os.path.join(d, "readfault.so")
    subprocess.check_call(["clang", "-shared", "-fPIC", "-O1", "-o", shim, os.path.join(HERE, "readfault.c"), "-ldl"])
    t, ref = os.path.join(d, "t"), os.path.join(d, "r")
    build(t, True)
    build(ref, False)
    base_env = dict(os.environ, HOME=d, XDG_CACHE_HOME=os.path.join(d, "cache"))
    base_env.pop("LD_PRELOAD", None)
    devs, runs = [], 0
    configs = [[], ["--skip-content-hash"], ["--transform", "cat"], ["-S"], ["-L"], ["--hash-fn", "blake3"], ["--rf-over", "0"]]
    for opts in configs:
        for after in ("0", "32768"):
            env = dict(base_env, LD_PRELOAD=shim, FAIL_READ_AFTER=after)
            # with --skip-content-hash only the first and last 16 KiB of a file >= 64 MiB are read at all: a read fault
            # beyond the prefix is a fault only for the big files (for the small ones the failing bytes are never read)
            sub = "big" if (after != "0" and "--skip-content-hash" in opts) else ""
            rc, got, err = groups(binary, [os.path.join(t, sub)], t, opts, env)
            rc2, want, _ = groups(binary, [os.path.join(ref, sub)], ref, opts, base_env)
            runs += 2
            tag = {"options": opts, "fail_read_after": int(after)}
            if rc != 0 or got is None:
                devs.append(dict(tag, what="run under faults did not finish with a report", rc=rc, stderr=err[-300:]))
                continue
            if got != want:
                extra = [g for g in got if g not in (want or [])]
                missing = [g for g in (want or []) if g not in got]
                devs.append(dict(tag, what="groups differ from the run without the failing entries", unexpected=extra[:3], missing=missing[:3]))
                continue
            for rel, (_, faulty) in FILES.items():
                if faulty and "VANISHED" not in rel and "FAILDIR" not in rel and os.path.basename(rel) not in err:
                    # an entry may legitimately never be opened (e.g. pruned by size before hashing); only FAILSTAT/FAILOPEN at 0 always are
                    if ("FAILSTAT" in rel) and not opts:
                        devs.append(dict(tag, what="no warning for " + rel))
            if "g_VANISHED" in err:
                devs.append(dict(tag, what="warning printed for an entry that simply disappeared", stderr=[l for l in err.splitlines() if "VANISHED" in l][:2]))
    # cache: what a faulty run stored must not change a later healthy run
    for opts in ([], ["--transform", "cat"]):
        cenv = dict(base_env, XDG_CACHE_HOME=os.path.join(d, "cache_" + str(len(opts))))
        groups(binary, [t], t, opts + ["--cache"], dict(cenv, LD_PRELOAD=shim, FAIL_READ_AFTER="32768"))
        rc, got, err = groups(binary, [t], t, opts + ["--cache"], cenv)
        rc2, want, _ = groups(binary, [t], t, opts, base_env)
        runs += 3
        if rc != 0 or got != want:
            devs.append({"options": opts + ["--cache"], "what": "a healthy run after a faulty cached run differs from an uncached healthy run",
                         "unexpected": [g for g in (got or []) if g not in (want or [])][:3], "missing": [g for g in (want or []) if g not in (got or [])][:3]})
    # roots: a root that cannot be stat-ed must not hide the roots after it
    for opts in ([], ["--rf-over", "0"]):
        # (through --stdin: paths given as arguments are validated up front by the CLI, which refuses to start)
        rc, got, err = groups(binary, [os.path.join(d, "NOPE_missing_root"), ref], ref, opts, base_env, stdin_roots=True)
        rc2, want, _ = groups(binary, [ref], ref, opts, base_env, stdin_roots=True)
        runs += 2
        if rc != 0 or got != want:
            devs.append({"options": opts, "what": "a root that cannot be stat-ed changed the result for the other roots", "rc": rc,
                         "got": (got or [])[:3], "want": (want or [])[:3]})
    # transform children that fail after producing output: non-zero exit, killed by a signal, a long non-ASCII diagnostic on stderr.
    # Such a file alone is left out (with a warning); the healthy files are grouped as without it; the run ends with a report.
    bind = os.path.join(d, "bin")
    os.makedirs(bind)
    filt = os.path.join(bind, "c15filter")
    with open(filt, "w") as f:
        f.write("#!/usr/bin/env python3\nimport os, signal, sys\nmode = os.environ.get('C15_MODE', 'exit')\ndata = sys.stdin.buffer.read()\n"
                "if b'POISON' in data:\n    sys.stdout.buffer.write(data[:8]); sys.stdout.buffer.flush()\n"
                "    if mode == 'signal': os.kill(os.getpid(), signal.SIGKILL)\n"
                "    if mode == 'stderr': sys.stderr.write('x' + '\\u00e9' * 1500 + '\\n'); sys.stderr.flush()\n"
                "    sys.exit(3)\nsys.stdout.buffer.write(data)\n")
    os.chmod(filt, 0o755)
    tt = os.path.join(d, "tt")
    os.makedirs(tt)
    for n, data in (("good1.dat", b"GOODGOOD" + b"g" * 900), ("good2.dat", b"GOODGOOD" + b"g" * 900), ("bad1.dat", b"SAMEHEAD POISON one " + b"1" * 880),
                    ("bad2.dat", b"SAMEHEAD POISON two " + b"2" * 880)):
        open(os.path.join(tt, n), "wb").write(data)
    for mode in ("exit", "signal", "stderr"):
        env = dict(base_env, PATH=bind + os.pathsep + base_env.get("PATH", ""), C15_MODE=mode)
        rc, got, err = groups(binary, [tt], tt, ["--transform", "c15filter"], env)
        runs += 1
        want = [["good1.dat", "good2.dat"]]
        names = sorted(sorted(os.path.basename(x) for x in g) for g in (got or [])) if got is not None else None
        if rc != 0 or names != want:
            devs.append({"options": ["--transform", "c15filter"], "child": {"exit": "prints 8 bytes, exits 3", "signal": "prints 8 bytes, is killed by SIGKILL",
                         "stderr": "prints 8 bytes and 3 KB of non-ASCII text on stderr, exits 3"}[mode],
                         "what": "files whose transform failed are grouped, or the run did not end with a report", "rc": rc, "groups": names, "stderr": err[-200:]})
        elif "bad1.dat" not in err or "bad2.dat" not in err:
            devs.append({"options": ["--transform", "c15filter"], "child": mode, "what": "no warning for a file whose transform failed"})
    # one name of a hard-link set cannot be opened (or has vanished): the other names of the same file are healthy entries and must be
    # grouped with their duplicates as if the failing name had not been there.  Which name of the set is tried first depends on the
    # directory order and on whether the file system answers extent queries, so the scenario is built with the failing name created
    # first and created last, in the work directory and on tmpfs when there is one
    bases = [d] + (["/dev/shm"] if os.path.isdir("/dev/shm") and os.access("/dev/shm", os.W_OK) else [])
    for bdir in bases:
        for marker in ("FAILOPEN", "VANISHED"):
            for first in ("faulty", "healthy"):
                hl = os.path.join(bdir, "c15hl_%d_%s_%s" % (os.getpid(), marker[:2].lower(), first[0]))     # (no marker in the directory name)
                shutil.rmtree(hl, ignore_errors=True)
                os.makedirs(os.path.join(hl, "r"))
                try:
                    names = ["n_%s.bin" % marker, "m_healthy.bin"] if first == "faulty" else ["m_healthy.bin", "n_%s.bin" % marker]
                    with open(os.path.join(hl, "r", names[0]), "wb") as f:
                        f.write(K)
                    os.link(os.path.join(hl, "r", names[0]), os.path.join(hl, "r", names[1]))
                    with open(os.path.join(hl, "r", "copy.bin"), "wb") as f:
                        f.write(K)
                    for opts in ([], ["--transform", "cat"], ["--threads", "1"]):
                        rc, got, err = groups(binary, [os.path.join(hl, "r")], os.path.join(hl, "r"), opts, dict(base_env, LD_PRELOAD=shim))
                        runs += 1
                        together = any("m_healthy.bin" in g and "copy.bin" in g for g in (got or []))
                        if rc != 0 or not together:
                            devs.append({"options": opts, "file_system": "tmpfs" if bdir == "/dev/shm" else "work dir",
                                         "what": "one name of a hard-link set fails (%s, created %s): the healthy name of the same file is not grouped with its copy" % (
                                             marker, "first" if first == "faulty" else "last"), "groups": got, "rc": rc})
                finally:
                    shutil.rmtree(hl, ignore_errors=True)
    # --one-fs asks for the device of every directory: when that query fails the directory is skipped (with a warning), it is not
    # entered "just in case" - it may be a mount point
    of = os.path.join(d, "onefs")
    os.makedirs(os.path.join(of, "m_SELFSTAT"))
    os.makedirs(os.path.join(of, "ok"))
    for rel in ("m_SELFSTAT/i1", "m_SELFSTAT/i2", "ok/o1", "ok/o2"):
        open(os.path.join(of, rel), "wb").write(b"one-fs scenario content\n")
    rc, got, err = groups(binary, [of], of, ["--one-fs"], dict(base_env, LD_PRELOAD=shim))
    runs += 1
    inside = sorted(x for g in (got or []) for x in g if "SELFSTAT" in x)
    if rc != 0 or not any("ok/o1" in g and "ok/o2" in g for g in (got or [])):
        devs.append({"options": ["--one-fs"], "what": "a directory whose device cannot be determined changed how the other files are grouped", "groups": got, "rc": rc})
    elif inside:
        devs.append({"options": ["--one-fs"], "what": "--one-fs: a directory whose device could not be determined (stat fails with EIO) was entered anyway", "listed": inside})
    # the n-th read of a directory fails (EIO after a few entries): the entries that could not be read are left out - with a warning
    # naming the directory - and the rest of the tree is grouped as usual
    nd = os.path.join(d, "nthdir")
    os.makedirs(os.path.join(nd, "d_NTHDIRENT"))
    os.makedirs(os.path.join(nd, "ok"))
    for i in range(1, 7):
        open(os.path.join(nd, "d_NTHDIRENT", "x%d" % i), "wb").write(b"same small content\n")
    for n in ("y1", "y2"):
        open(os.path.join(nd, "ok", n), "wb").write(b"same small content\n")
    for opts in ([], ["--threads", "1"]):
        rc, got, err = groups(binary, [nd], nd, opts, dict(base_env, LD_PRELOAD=shim))
        runs += 1
        together = any("ok/y1" in g and "ok/y2" in g for g in (got or []))
        if rc != 0 or not together:
            devs.append({"options": opts, "what": "a directory whose n-th read fails changed how the healthy files are grouped", "groups": got, "rc": rc})
        elif not any("d_NTHDIRENT" in l and "warn" in l for l in err.splitlines()):
            devs.append({"options": opts, "what": "entries of a directory were lost to a failing read of the directory (EIO at the third entry) without any warning",
                         "listed_from_that_directory": sorted(x for g in (got or []) for x in g if "NTHDIRENT" in x)})
    # an ignore file that cannot be loaded affects nothing but itself: the rules inherited from the parent directories keep applying
    # below it (the nested file is unreadable as text: invalid UTF-8; or a directory stands where the file is expected)
    for kind in ("invalid-utf8", "directory"):
        for nm in (".gitignore", ".fdignore"):
            ig, igref = os.path.join(d, "ig_" + kind + nm), os.path.join(d, "igref_" + kind + nm)
            for top, with_bad in ((ig, True), (igref, False)):
                os.makedirs(os.path.join(top, "sub", "deeper"))
                with open(os.path.join(top, nm), "w") as f:
                    f.write("*.bak\n")
                for rel in ("sub/x.bak", "sub/y.bak", "sub/deeper/z.bak"):
                    open(os.path.join(top, rel), "wb").write(b"ignored duplicate " * 20)
                for rel in ("sub/keep1.dat", "sub/deeper/keep2.dat"):
                    open(os.path.join(top, rel), "wb").write(b"kept duplicate " * 30)
                if with_bad:
                    bad = os.path.join(top, "sub", nm)
                    if kind == "invalid-utf8":
                        open(bad, "wb").write(b"\xff\xfe\xfa broken\n")
                    else:
                        os.makedirs(bad)
            rc, got, err = groups(binary, [ig], ig, [], base_env)
            rc2, want, _ = groups(binary, [igref], igref, [], base_env)
            runs += 2
            if rc != 0 or got != want:
                devs.append({"options": [], "what": "a nested %s that cannot be loaded (%s) changed which other files are scanned" % (nm, kind),
                             "unexpected": [g for g in (got or []) if g not in (want or [])][:3], "missing": [g for g in (want or []) if g not in (got or [])][:3]})
    print(json.dumps({"runs": runs, "n": len(devs), "deviations": devs[:8]}))
    shutil.rmtree(d, ignore_errors=True)


if __name__ == "__main__":
    main()
