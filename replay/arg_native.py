#!/usr/bin/env python3
"""Builds the fclones test binary of a scratch copy with replay/arg_test.rs injected and evaluates the real
arg::{quote, split, to_stfu8, from_stfu8} on hex-encoded inputs.  Library use: native = ArgNative(src, work); native.run(list of bytes / ('L', bytes))"""
import json, os, subprocess, sys

HERE = os.path.dirname(os.path.abspath(__file__))


class ArgNative:
    def __init__(self, src, work):
        self.work = work
        argrs = os.path.join(src, "fclones", "src", "arg.rs")
        s = open(argrs).read()
        if "mod verif_arg" not in s:
            with open(argrs, "a") as f:
                f.write('\n#[cfg(test)]\n#[path = "%s"]\nmod verif_arg;\n' % os.path.join(HERE, "arg_test.rs"))
        env = dict(os.environ, CARGO_NET_OFFLINE="true")
        tdir = os.path.join(work, "replay-target")
        p = subprocess.run(["cargo", "test", "--offline", "--lib", "--no-run", "--message-format=json", "--target-dir", tdir],
                           cwd=os.path.join(src, "fclones"), env=env, stdout=subprocess.PIPE, stderr=subprocess.PIPE, timeout=3000)
        self.exe = None
        for line in p.stdout.decode(errors="replace").splitlines():
            try:
                j = json.loads(line)
            except Exception:
                continue
            if j.get("reason") == "compiler-artifact" and j.get("executable") and j.get("target", {}).get("name") == "fclones" and "lib" in j.get("target", {}).get("kind", []):
                self.exe = j["executable"]
        if p.returncode != 0 or not self.exe:
            raise RuntimeError("native arg driver build failed: " + p.stderr.decode(errors="replace")[-1200:])

    def run(self, cases):
        inp = os.path.join(self.work, "arg_cases.txt")
        outp = os.path.join(self.work, "arg_out.txt")
        with open(inp, "w") as f:
            for c in cases:
                if isinstance(c, tuple):
                    f.write("L %s\n" % c[1].hex())
                else:
                    f.write(c.hex() + "\n")
        env = dict(os.environ, VERIF_ARG_CASES=inp, VERIF_ARG_OUT=outp)
        p = subprocess.run([self.exe, "--exact", "arg::verif_arg::verif_arg_driver", "--nocapture", "--test-threads", "1"],
                           env=env, stdout=subprocess.PIPE, stderr=subprocess.PIPE, timeout=600)
        res = []
        for line in open(outp):
            parts = [x.strip() for x in line.rstrip("\n").split(" | ")]
            d = {"in": parts[0]}
            for x in parts[1:]:
                k, v = x.split(" ", 1)
                d[k] = v
            res.append(d)
        return res


if __name__ == "__main__":
    n = ArgNative(sys.argv[1], sys.argv[2])
    for r in n.run([bytes.fromhex(h) for h in sys.argv[3:]]):
        print(r)
