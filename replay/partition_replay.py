#!/usr/bin/env python3
"""Native differential replay of dedupe::partition: builds small groups on disk (hard-link sets as sub-groups), runs the real
partition (replay/partition_test.rs) and compares with the documented semantics.
usage as library: deviations(src, work, scenarios) ; scenario = dict(blocks=[[0,1],[2]], keep=[bool..], maydrop=[bool..], rf=int|None, mtime='none'|'old'|'future')"""
import json, os, shutil, sys, tempfile

sys.path.insert(0, os.path.dirname(os.path.abspath(__file__)))
import native_driver


def reference(sc):
    n = len(sc["keep"])
    blocks = sorted(sc["blocks"], key=lambda b: b[0])
    usepat = not all(sc["maydrop"])
    prot = [any(sc["keep"][i] for i in b) or (usepat and not all(sc["maydrop"][i] for i in b)) for b in blocks]
    nn = max(1, sc["rf"] if sc["rf"] is not None else 1)
    keep, drop = [], []
    quota = nn - sum(prot)
    seen_unprot = 0
    for b, p in zip(blocks, prot):
        if p:
            keep.append(b)
        else:
            (keep if seen_unprot < quota else drop).append(b)
            seen_unprot += 1
    if sc.get("mtime") == "old":
        return "err"
    if sc.get("mtime") == "t2020" and sc.get("newer"):
        return "err"
    return (sorted(i for b in keep for i in b), sorted(i for b in drop for i in b))


def name_of(sc, i):
    return "%s%s_%d" % ("keep_" if sc["keep"][i] else "plain_", "x_drop_x" if sc["maydrop"][i] else "x_stay_x", i)


def deviations(src, work, scenarios):
    drv = native_driver.NativeDriver(src, work, [("dedupe", "partition_test.rs", "verif_partition")])
    d = tempfile.mkdtemp(prefix="partreplay.")
    try:
        lines, meta = [], []
        for k, sc in enumerate(scenarios):
            sd = os.path.join(d, "s%d" % k)
            os.makedirs(sd)
            n = len(sc["keep"])
            for b in sc["blocks"]:
                first = os.path.join(sd, name_of(sc, b[0]))
                with open(first, "wb") as f:
                    f.write(b"same content " * 20)
                for i in b[1:]:
                    os.link(first, os.path.join(sd, name_of(sc, i)))
                if sc.get("mtime") == "t2020":
                    t = 1609459200 if sc["blocks"].index(b) in sc.get("newer", []) else 1262304000   # 2021 / 2010
                    os.utime(first, (t, t))
            names = [name_of(sc, i) for i in range(n)]
            usepat = not all(sc["maydrop"])
            lines.append("P %s %s %s %s%s" % (sd, sc["rf"] if sc["rf"] is not None else "-", sc.get("mtime", "none"), ",".join(names), " droppat" if usepat else ""))
            meta.append((sc, names))
        out = drv.run("dedupe::verif_partition::verif_partition_driver", lines, "part")
        devs = []
        for (sc, names), o in zip(meta, out):
            res = o.split("=> ", 1)[1]
            want = reference(sc)
            if want == "err":
                ok = res == "err"
                got = res
            elif res.startswith("ok "):
                kp = res.split("keep=", 1)[1].split(" drop=")[0]
                dp = res.split(" drop=", 1)[1]
                got = (sorted(names.index(x) for x in kp.split(",") if x), sorted(names.index(x) for x in dp.split(",") if x))
                ok = got == want
            else:
                got, ok = res, False
            if not ok:
                devs.append({"scenario": sc, "real": got, "documented": want})
        return devs
    finally:
        shutil.rmtree(d, ignore_errors=True)


if __name__ == "__main__":
    scs = []
    for blocks in ([[0], [1]], [[0, 1]], [[0], [1], [2]], [[0, 1], [2]], [[0], [1, 2]], [[0, 2], [1]], [[0, 1, 2]]):
        n = sum(len(b) for b in blocks)
        for rf in (None, 1, 2, 3):
            for keepmask in range(2 ** n):
                scs.append(dict(blocks=blocks, keep=[bool(keepmask >> i & 1) for i in range(n)], maydrop=[True] * n, rf=rf, mtime="none"))
            scs.append(dict(blocks=blocks, keep=[False] * n, maydrop=[i != 0 for i in range(n)], rf=rf, mtime="none"))
        scs.append(dict(blocks=blocks, keep=[False] * n, maydrop=[True] * n, rf=1, mtime="old"))
        scs.append(dict(blocks=blocks, keep=[False] * n, maydrop=[True] * n, rf=1, mtime="future"))
    print(json.dumps(deviations(sys.argv[1], sys.argv[2], scs))[:3000], len(scs))
