// LD_PRELOAD shim for native replay of file-system fault plans.
// FAULT_PLAN="rename:1,unlink:2"  -> the 1st rename and the 2nd unlink (counted after VERIF_ARMED is set) fail with EIO
// FAULT_ERRNO=EACCES|EPERM|ENOSPC|EXDEV|EOPNOTSUPP|EIO selects the error of the failing calls (default EIO)
// FAULT_KILL="rename:1:before|after" -> the process _exit(137)s before/after that call
#define _GNU_SOURCE
#include <dlfcn.h>
#include <errno.h>
#include <fcntl.h>
#include <stdarg.h>
#include <stdio.h>
#include <stdlib.h>
#include <string.h>
#include <sys/stat.h>
#include <unistd.h>

static int counts[16];
static const char *KINDS[] = {"rename", "link", "symlink", "unlink", "mkdir", "create", "copy", "fsync", 0};

static int fault_errno(void) {
    const char *e = getenv("FAULT_ERRNO");
    if (!e) return EIO;
    if (!strcmp(e, "EACCES")) return EACCES;
    if (!strcmp(e, "EPERM")) return EPERM;
    if (!strcmp(e, "ENOSPC")) return ENOSPC;
    if (!strcmp(e, "EXDEV")) return EXDEV;
    if (!strcmp(e, "EOPNOTSUPP")) return EOPNOTSUPP;
    return EIO;
}
static int kind_idx(const char *k) { for (int i = 0; KINDS[i]; i++) if (!strcmp(KINDS[i], k)) return i; return -1; }
static int armed(void) { return getenv("VERIF_ARMED") != 0; }

// returns 1 if this call must fail; handles kill-before
static int pre(const char *kind) {
    if (!armed()) return 0;
    int ki = kind_idx(kind);
    int n = ++counts[ki];
    const char *kill = getenv("FAULT_KILL");
    if (kill) { char k[32]; int idx; char when[16];
        if (sscanf(kill, "%31[^:]:%d:%15s", k, &idx, when) == 3 && !strcmp(k, kind) && idx == n && !strcmp(when, "before")) _exit(137); }
    const char *plan = getenv("FAULT_PLAN");
    if (!plan) return 0;
    char buf[256]; strncpy(buf, plan, 255); buf[255] = 0;
    for (char *tok = strtok(buf, ","); tok; tok = strtok(0, ",")) {
        char k[32]; int idx;
        if (sscanf(tok, "%31[^:]:%d", k, &idx) == 2 && !strcmp(k, kind) && idx == n) { errno = fault_errno(); return 1; }
    }
    return 0;
}
static void post(const char *kind) {
    if (!armed()) return;
    const char *kill = getenv("FAULT_KILL");
    if (kill) { char k[32]; int idx; char when[16]; int n = counts[kind_idx(kind)];
        if (sscanf(kill, "%31[^:]:%d:%15s", k, &idx, when) == 3 && !strcmp(k, kind) && idx == n && !strcmp(when, "after")) _exit(137); }
}

#define REAL(name) static __typeof__(name) *real; if (!real) real = dlsym(RTLD_NEXT, #name)

int rename(const char *a, const char *b) { REAL(rename); if (pre("rename")) return -1; int r = real(a, b); post("rename"); return r; }
int renameat(int fa, const char *a, int fb, const char *b) { REAL(renameat); if (pre("rename")) return -1; int r = real(fa, a, fb, b); post("rename"); return r; }
int link(const char *a, const char *b) { REAL(link); if (pre("link")) return -1; int r = real(a, b); post("link"); return r; }
int linkat(int fa, const char *a, int fb, const char *b, int fl) { REAL(linkat); if (pre("link")) return -1; int r = real(fa, a, fb, b, fl); post("link"); return r; }
int symlink(const char *a, const char *b) { REAL(symlink); if (pre("symlink")) return -1; int r = real(a, b); post("symlink"); return r; }
int symlinkat(const char *a, int fb, const char *b) { REAL(symlinkat); if (pre("symlink")) return -1; int r = real(a, fb, b); post("symlink"); return r; }
int unlink(const char *a) { REAL(unlink); if (pre("unlink")) return -1; int r = real(a); post("unlink"); return r; }
int unlinkat(int fa, const char *a, int fl) { REAL(unlinkat); if (pre("unlink")) return -1; int r = real(fa, a, fl); post("unlink"); return r; }
int fsync(int fd) { REAL(fsync); if (pre("fsync")) return -1; int r = real(fd); post("fsync"); return r; }
int fdatasync(int fd) { REAL(fdatasync); if (pre("fsync")) return -1; int r = real(fd); post("fsync"); return r; }
int mkdir(const char *a, mode_t m) { REAL(mkdir); if (pre("mkdir")) return -1; int r = real(a, m); post("mkdir"); return r; }

static int is_create(int flags) { return (flags & O_CREAT) != 0; }
int open64(const char *p, int flags, ...) { REAL(open64); mode_t m = 0; if (flags & O_CREAT) { va_list ap; va_start(ap, flags); m = va_arg(ap, mode_t); va_end(ap); }
    if (is_create(flags)) { if (pre("create")) return -1; int r = real(p, flags, m); post("create"); return r; } return real(p, flags, m); }
int open(const char *p, int flags, ...) { REAL(open); mode_t m = 0; if (flags & O_CREAT) { va_list ap; va_start(ap, flags); m = va_arg(ap, mode_t); va_end(ap); }
    if (is_create(flags)) { if (pre("create")) return -1; int r = real(p, flags, m); post("create"); return r; } return real(p, flags, m); }
ssize_t copy_file_range(int fi, off_t *oi, int fo, off_t *oo, size_t len, unsigned fl) { REAL(copy_file_range);
    if (pre("copy")) return -1; ssize_t r = real(fi, oi, fo, oo, len, fl); post("copy"); return r; }
