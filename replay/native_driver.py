#!/usr/bin/env python3
"""Generic native driver: injects replay/<file>.rs as a cfg(test) child module into fclones/src/<parent>.rs of a scratch
copy, builds the crate's test binary once and runs the driver test with a cases file."""
import json, os, subprocess

HERE = os.path.dirname(os.path.abspath(__file__))


class NativeDriver:
    def __init__(self, src, work, injections):
        """injections: list of (parent module file e.g. 'report', rust file in replay/, module name)"""
        self.work = work
        for parent, rsfile, mod in injections:
            p = os.path.join(src, "fclones", "src", parent + ".rs")
            s = open(p).read()
            if "mod %s;" % mod not in s:
                with open(p, "a") as f:
                    f.write('\n#[cfg(test)]\n#[path = "%s"]\npub(crate) mod %s;\n' % (os.path.join(HERE, rsfile), mod))
        env = dict(os.environ, CARGO_NET_OFFLINE="true")
        tdir = os.path.join(work, "replay-target")
        p = subprocess.run(["cargo", "test", "--offline", "--lib", "--no-run", "--message-format=json", "--target-dir", tdir],
                           cwd=os.path.join(src, "fclones"), env=env, stdout=subprocess.PIPE, stderr=subprocess.PIPE, timeout=3000)
        self.exe = None
        for line in p.stdout.decode(errors="replace").splitlines():
            try:
                j = json.loads(line)
            except Exception:
                continue
            if j.get("reason") == "compiler-artifact" and j.get("executable") and j.get("target", {}).get("name") == "fclones" and "lib" in j.get("target", {}).get("kind", []):
                self.exe = j["executable"]
        if p.returncode != 0 or not self.exe:
            raise RuntimeError("native driver build failed: " + p.stderr.decode(errors="replace")[-1500:])

    def run(self, test_path, lines, tag="drv"):
        inp = os.path.join(self.work, tag + "_cases.txt")
        outp = os.path.join(self.work, tag + "_out.txt")
        with open(inp, "w") as f:
            f.write("\n".join(lines) + "\n")
        if os.path.exists(outp):
            os.remove(outp)
        env = dict(os.environ, VERIF_CASES=inp, VERIF_OUT=outp)
        subprocess.run([self.exe, "--exact", test_path, "--nocapture", "--test-threads", "1"],
                       env=env, stdout=subprocess.PIPE, stderr=subprocess.PIPE, timeout=900)
        if not os.path.exists(outp):
            raise RuntimeError("native driver produced no output")
        return [l.rstrip("\n") for l in open(outp)]
