// Native driver for selector-level checks (C09/C16), injected as a cfg(test) child module of selector.rs.
//   S <base dir hex> <glob hex> <ci>   -> the pattern PathSelector::include_paths stores for this glob under this base dir:
//                                          "OK <anchored regex hex> <prefix regex hex> <fixed prefix hex> <ci>" | "ERR"
//   X <base dir hex> <glob hex> <ci>   -> the same for exclude_paths
//   SM | SMI <base hex> <include glob hex|-> <exclude glob hex|-> <name glob hex|-> <path hex>..   (SMI: globs compiled with --ignore-case)
//                                       -> per path "<matches_full_path><matches_dir>"
use super::*;
use crate::pattern::verif_pattern_test::{describe, opts, unhex};

fn text(h: &str) -> String {
    String::from_utf8(unhex(h)).unwrap()
}

#[test]
fn verif_selector_driver() {
    let inp = std::fs::read_to_string(std::env::var("VERIF_CASES").unwrap()).unwrap();
    let mut out = String::new();
    for line in inp.lines() {
        let f: Vec<&str> = line.split_whitespace().collect();
        if f.is_empty() {
            continue;
        }
        let res = std::panic::catch_unwind(|| match f[0] {
            "S" | "X" => {
                let base = Path::from(text(f[1]));
                match Pattern::glob_with(&text(f[2]), &opts(f[3] == "1")) {
                    Ok(p) => {
                        let sel = PathSelector::new(base);
                        if f[0] == "S" {
                            describe(&sel.include_paths(vec![p]).included_paths[0])
                        } else {
                            describe(&sel.exclude_paths(vec![p]).excluded_paths[0])
                        }
                    }
                    Err(_) => "ERR".to_string(),
                }
            }
            "SM" | "SMI" => {
                // SMI: the globs are compiled with --ignore-case, as GroupConfig::compile_pattern does
                let o = opts(f[0] == "SMI");
                let mut sel = PathSelector::new(Path::from(text(f[1])));
                if f[2] != "-" {
                    sel = sel.include_paths(vec![Pattern::glob_with(&text(f[2]), &o).unwrap()]);
                }
                if f[3] != "-" {
                    sel = sel.exclude_paths(vec![Pattern::glob_with(&text(f[3]), &o).unwrap()]);
                }
                if f[4] != "-" {
                    sel = sel.include_names(vec![Pattern::glob_with(&text(f[4]), &o).unwrap()]);
                }
                f[5..]
                    .iter()
                    .map(|h| {
                        // paths are given as raw bytes (they need not be valid UTF-8)
                        use std::os::unix::ffi::OsStringExt;
                        let p = Path::from(std::path::PathBuf::from(std::ffi::OsString::from_vec(unhex(h))));
                        format!("{}{}", sel.matches_full_path(&p) as u8, sel.matches_dir(&p) as u8)
                    })
                    .collect::<Vec<_>>()
                    .join(" ")
            }
            _ => "?".to_string(),
        });
        out.push_str(&res.unwrap_or_else(|_| "PANIC".to_string()));
        out.push('\n');
    }
    std::fs::write(std::env::var("VERIF_OUT").unwrap(), out).unwrap();
}
