#!/usr/bin/env python3
"""Native replay of model-FS counterexamples (C05 / C18 / C20).
usage: fsops_replay.py <scratch copy of the repo> <op: remove|link|soft|move> <mode: faults|lock> <out scratch dir>
Builds the crate's test binary with replay/fsops_test.rs injected, then runs FsCommand::execute on real
files for every fault plan with <= 2 failing calls and every kill point (LD_PRELOAD shim replay/faultfs.c),
or with a foreign fcntl lock held, and checks the C05/C18/C20 conditions on the real directory.
Prints a JSON list of native violations."""
import itertools, json, os, re, shutil, subprocess, sys, tempfile

HERE = os.path.dirname(os.path.abspath(__file__))


def build(src, work):
    dedupe = os.path.join(src, "fclones", "src", "dedupe.rs")
    s = open(dedupe).read()
    if "mod verif_replay" not in s:
        with open(dedupe, "a") as f:
            f.write('\n#[cfg(test)]\n#[path = "%s"]\nmod verif_replay;\n' % os.path.join(HERE, "fsops_test.rs"))
    env = dict(os.environ, CARGO_NET_OFFLINE="true")
    tdir = os.path.join(work, "replay-target")
    p = subprocess.run(["cargo", "test", "--offline", "--lib", "--no-run", "--message-format=json", "--target-dir", tdir],
                       cwd=os.path.join(src, "fclones"), env=env, stdout=subprocess.PIPE, stderr=subprocess.PIPE, timeout=3000)
    exe = None
    for line in p.stdout.decode(errors="replace").splitlines():
        try:
            j = json.loads(line)
        except Exception:
            continue
        if j.get("reason") == "compiler-artifact" and j.get("executable") and j.get("target", {}).get("name") == "fclones" and "lib" in j.get("target", {}).get("kind", []):
            exe = j["executable"]
    if p.returncode != 0 or not exe:
        raise SystemExit("BUILD FAILED: " + p.stderr.decode(errors="replace")[-1500:])
    shim = os.path.join(work, "faultfs.so")
    subprocess.check_call(["clang", "-shared", "-fPIC", "-O1", "-o", shim, os.path.join(HERE, "faultfs.c"), "-ldl"])
    return exe, shim


def setup(d, dpre, twonames=False):
    shutil.rmtree(d, ignore_errors=True)
    os.makedirs(d)
    for n, c in (("L", b"same-bytes" * 50), ("K", b"same-bytes" * 50), ("B", b"bystander" * 10)):
        with open(os.path.join(d, n), "wb") as f:
            f.write(c)
    if twonames:
        # the file that gets replaced has a second name: the metadata captured for the command says nlink == 2
        os.link(os.path.join(d, "L"), os.path.join(d, "L_other_name"))
    os.makedirs(os.path.join(d, "P"))
    if dpre:
        with open(os.path.join(d, "P", "D"), "wb") as f:
            f.write(b"pre-existing target")


def snap(d):
    st = {}
    for root, dirs, files in os.walk(d):
        for n in files + dirs:
            p = os.path.join(root, n)
            rel = os.path.relpath(p, d)
            try:
                s = os.lstat(p)
            except FileNotFoundError:
                continue
            if os.path.islink(p):
                st[rel] = ("link", os.readlink(p))
            elif os.path.isfile(p):
                st[rel] = ("file", s.st_ino, open(p, "rb").read())
            else:
                st[rel] = ("dir",)
    return st


def check(op, before, after, result, warned, dpre, killed, lock_held):
    """returns a list of violated conditions"""
    bad = []
    L0, K0, B0 = before["L"], before["K"], before["B"]
    if after.get("K") != K0:
        bad.append("retained file changed")
    if after.get("B") != B0:
        bad.append("bystander changed")
    if "L_other_name" in before and after.get("L_other_name") != before["L_other_name"]:
        bad.append("another name of the replaced file changed")
    if dpre and after.get("P/D") != before.get("P/D"):
        bad.append("existing move target altered")
    temps = [k for k in after if re.match(r"L\.[A-Za-z0-9]{24}$", k)]
    orig_at_l = after.get("L") == L0
    orig_at_t = any(after[t] == L0 for t in temps)
    if op == "link":
        replaced = after.get("L", (None,))[0] == "file" and after["L"][1] == K0[1]
    elif op == "soft":
        replaced = after.get("L", (None,))[0] == "link" and os.path.basename(after["L"][1]) == "K"
    elif op == "move":
        d = after.get("P/D")
        replaced = (not dpre) and d is not None and d[0] == "file" and d[2] == L0[2]
    else:
        replaced = True
    if not (orig_at_l or orig_at_t or replaced):
        bad.append("original bytes neither at the path, nor under a temp name, nor completely replaced")
    if lock_held:
        if not orig_at_l:
            bad.append("locked file was changed")
        if result == "ok":
            bad.append("command reported success although the lock was refused")
    if not killed:
        if result == "ok":
            if op == "remove" and "L" in after:
                bad.append("remove reported success but the file exists")
            if op in ("link", "soft") and not replaced:
                bad.append("link reported success but the path is not the link")
            if op == "move" and (not replaced or "L" in after):
                bad.append("move reported success but source/target state is wrong")
            if temps and not warned:
                bad.append("temp file left without warning")
        elif result == "err":
            if not (orig_at_l or (orig_at_t and warned)):
                bad.append("failed command: original not restored and no warning")
    return bad


def run_one(exe, shim, d, op, use_rename, lock, plan=None, kill=None, hold_lock=False, err=None):
    env = dict(os.environ, VERIF_DIR=d, VERIF_OP=op, VERIF_USE_RENAME="1" if use_rename else "0",
               VERIF_LOCK="1" if lock else "0", LD_PRELOAD=shim)
    env.pop("VERIF_ARMED", None)
    if plan:
        env["FAULT_PLAN"] = plan
    if err:
        env["FAULT_ERRNO"] = err
    if kill:
        env["FAULT_KILL"] = kill
    holder = None
    if hold_lock:
        holder = subprocess.Popen([sys.executable, "-c",
            "import fcntl,sys,time\nf=open(sys.argv[1],'r+b')\nfcntl.lockf(f,fcntl.LOCK_EX)\nprint('locked',flush=True)\ntime.sleep(120)",
            os.path.join(d, "L")], stdout=subprocess.PIPE)
        holder.stdout.readline()
    p = subprocess.run([exe, "--exact", "dedupe::verif_replay::verif_replay_execute", "--nocapture", "--test-threads", "1"],
                       env=env, stdout=subprocess.PIPE, stderr=subprocess.PIPE, timeout=120)
    if holder:
        holder.kill(); holder.wait()
    out = p.stdout.decode(errors="replace") + p.stderr.decode(errors="replace")
    m = re.search(r"VERIF_RESULT (ok|err)", out)
    return (m.group(1) if m else None), ("warn:" in out), p.returncode, out


def main():
    src, op, mode, work = sys.argv[1:5]
    exe, shim = build(src, work)
    d = os.path.join(work, "fsreplay-dir")
    found = []
    # (fsync: nothing in the unchanged code syncs, a plan naming it is then a run without a fault; a change that makes an
    # operation fail after it has taken effect - "rename, then sync the directory, return the sync's error" - is caught by it)
    kinds = {"remove": ["unlink"], "link": ["rename", "link", "unlink", "fsync"], "soft": ["rename", "symlink", "unlink", "fsync"],
             "move": ["rename", "mkdir", "create", "copy", "unlink", "fsync"]}[op]
    variants = [(False, False, False), (False, False, True)] if op != "move" else [(ur, dp, tn) for ur in (True, False) for dp in (False, True) for tn in ((False, True) if not dp else (False,))]
    runs = 0
    for use_rename, dpre, twonames in variants:
        if mode == "lock":
            setup(d, dpre, twonames); before = snap(d)
            res, warned, rc, out = run_one(exe, shim, d, op, use_rename, True, hold_lock=True)
            runs += 1
            bad = check(op, before, snap(d), res, warned, dpre, False, True)
            if bad:
                found.append({"op": op, "use_rename": use_rename, "target_exists": dpre, "two_names": twonames, "lock_held": True, "violations": bad})
            continue
        points = [(k, i) for k in kinds for i in (1, 2)]
        plans = [None] + ["%s:%d" % p for p in points] + ["%s:%d,%s:%d" % (a + b) for a, b in itertools.combinations(points, 2)]
        for plan in plans:
            # single faults are tried with every error class the property names, double faults with EIO
            errs = [None] if (plan is None or "," in plan) else [None, "EACCES", "EPERM", "ENOSPC", "EXDEV", "EOPNOTSUPP"]
            for err in errs:
                setup(d, dpre, twonames); before = snap(d)
                res, warned, rc, out = run_one(exe, shim, d, op, use_rename, False, plan=plan, err=err)
                runs += 1
                bad = check(op, before, snap(d), res, warned, dpre, False, False)
                if bad:
                    found.append({"op": op, "use_rename": use_rename, "target_exists": dpre, "two_names": twonames, "fault_plan": plan, "errno": err or "EIO", "result": res, "violations": bad})
        for k, i in points:
            for when in ("before", "after"):
                setup(d, dpre, twonames); before = snap(d)
                res, warned, rc, out = run_one(exe, shim, d, op, use_rename, False, kill="%s:%d:%s" % (k, i, when))
                runs += 1
                bad = check(op, before, snap(d), res, warned, dpre, rc != 0 and res is None, False)
                if bad:
                    found.append({"op": op, "use_rename": use_rename, "target_exists": dpre, "two_names": twonames, "kill": "%s:%d:%s" % (k, i, when), "violations": bad})
    shutil.rmtree(d, ignore_errors=True)
    print(json.dumps({"runs": runs, "violations": found[:20], "n": len(found)}))


main()
