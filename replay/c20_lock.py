#!/usr/bin/env python3
"""Native replay for C20: a droppable file is fcntl-locked by a foreign process while a
dedupe command runs.  usage: c20_lock.py <fclones-binary> <op>   (op: remove|link|soft|move|dedupe)
exit 0 = the locked file was left alone, exit 1 = it was changed (violation reproduced)."""
import fcntl, os, subprocess, sys, tempfile, shutil, time

def main():
    binary, op = sys.argv[1], sys.argv[2]
    d = tempfile.mkdtemp(prefix="c20replay.")
    try:
        tree = os.path.join(d, "tree"); os.makedirs(tree)
        a, b = os.path.join(tree, "a.bin"), os.path.join(tree, "b.bin")
        for p in (a, b):
            with open(p, "wb") as f:
                f.write(b"x" * 5000)
        old = time.time() - 100
        os.utime(a, (old, old)); os.utime(b, (old, old))
        rep = os.path.join(d, "report.txt")
        env = dict(os.environ, HOME=d, XDG_CACHE_HOME=os.path.join(d, "cache"))
        with open(rep, "wb") as out:
            subprocess.check_call([binary, "group", tree], stdout=out, stderr=subprocess.DEVNULL, env=env)
        st0 = os.lstat(b)
        # a separate process must hold the lock (fcntl locks are per process)
        holder = subprocess.Popen([sys.executable, "-c",
            "import fcntl,sys,time\nf=open(sys.argv[1],'r+b')\nfcntl.lockf(f,fcntl.LOCK_EX)\nprint('locked',flush=True)\ntime.sleep(60)", b],
            stdout=subprocess.PIPE)
        holder.stdout.readline()
        args = {"remove": ["remove"], "link": ["link"], "soft": ["link", "--soft"],
                "move": ["move", os.path.join(d, "moved")], "dedupe": ["dedupe"]}[op]
        with open(rep, "rb") as inp:
            r = subprocess.run([binary] + args, stdin=inp, stdout=subprocess.PIPE, stderr=subprocess.PIPE, env=env)
        holder.kill(); holder.wait()
        try:
            st1 = os.lstat(b)
        except FileNotFoundError:
            st1 = None
        changed = st1 is None or (st1.st_ino, st1.st_mode) != (st0.st_ino, st0.st_mode)
        print("op=%s locked_file_changed=%s stderr=%s" % (op, changed, r.stderr.decode(errors="replace").strip()[-300:]))
        return 1 if changed else 0
    finally:
        shutil.rmtree(d, ignore_errors=True)

sys.exit(main())
