// Accessor injected into regex.rs (cfg(test) child module): the regex text handed to the regex crate and the case flag of
// fclones' Regex wrapper.
use super::*;

pub(crate) fn parts(r: &Regex) -> (String, bool) {
    (r.regex.as_str().to_string(), r.case_insensitive)
}
