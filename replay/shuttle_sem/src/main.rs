// Native replay for C19: the real semaphore.rs (std::sync rewritten to shuttle::sync by the driver) is run under
// shuttle's exhaustive DFS scheduler on the workload given on the command line:
//   shuttle_sem <permits> <prog0> <prog1> ...    prog = string over A (acquire), R (release own), r<t><i> (release the
//   guard acquired by op i of thread t)
// exit 0 = no violation on any schedule, exit 1 = violation (panic / deadlock reported by shuttle)
#[path = "semaphore.rs"]
#[allow(dead_code)]
mod semaphore;

use semaphore::Semaphore;
use shuttle::sync::atomic::{AtomicIsize, AtomicBool, Ordering};
use shuttle::sync::Arc;
use shuttle::thread;

#[derive(Clone, Debug)]
enum Op { Acq, Rel, RelOf(usize, usize) }

fn parse(p: &str) -> Vec<Op> {
    let b = p.as_bytes();
    let mut i = 0;
    let mut v = vec![];
    while i < b.len() {
        match b[i] {
            b'A' => { v.push(Op::Acq); i += 1 }
            b'R' => { v.push(Op::Rel); i += 1 }
            b'r' => { v.push(Op::RelOf((b[i + 1] - b'0') as usize, (b[i + 2] - b'0') as usize)); i += 3 }
            _ => panic!("bad program"),
        }
    }
    v
}

fn main() {
    let args: Vec<String> = std::env::args().collect();
    let permits: isize = args[1].parse().unwrap();
    let progs: Vec<Vec<Op>> = args[2..].iter().map(|p| parse(p)).collect();
    let progs2 = progs.clone();
    let workload = move |progs: Vec<Vec<Op>>| {
                let sem = Arc::new(Semaphore::new(permits));
                let acq_done = Arc::new(AtomicIsize::new(0));
                let rel_started = Arc::new(AtomicIsize::new(0));
                let done: Arc<Vec<Vec<AtomicBool>>> =
                    Arc::new(progs.iter().map(|p| p.iter().map(|_| AtomicBool::new(false)).collect()).collect());
                let mut hs = vec![];
                for (t, prog) in progs.iter().cloned().enumerate() {
                    let sem = sem.clone();
                    let acq_done = acq_done.clone();
                    let rel_started = rel_started.clone();
                    let done = done.clone();
                    hs.push(thread::spawn(move || {
                        for (i, op) in prog.iter().enumerate() {
                            match op {
                                Op::Acq => {
                                    sem.acquire();
                                    let a = acq_done.fetch_add(1, Ordering::SeqCst) + 1;
                                    let r = rel_started.load(Ordering::SeqCst);
                                    assert!(a - r <= permits.max(0), "more holders than permits");
                                    thread::yield_now();
                                }
                                Op::Rel => {
                                    rel_started.fetch_add(1, Ordering::SeqCst);
                                    sem.release();
                                }
                                Op::RelOf(dt, di) => {
                                    while !done[*dt][*di].load(Ordering::SeqCst) {
                                        thread::yield_now();
                                    }
                                    rel_started.fetch_add(1, Ordering::SeqCst);
                                    sem.release();
                                }
                            }
                            done[t][i].store(true, Ordering::SeqCst);
                        }
                    }));
                }
                for h in hs {
                    h.join().unwrap();
                }
    };
    // random schedules first (fast), then exhaustive DFS with an iteration cap
    let w1 = workload.clone();
    let p1 = progs.clone();
    let result = std::panic::catch_unwind(move || {
        shuttle::check_random(move || w1(p1.clone()), 20000);
    });
    let result = if result.is_ok() {
        let w2 = workload.clone();
        std::panic::catch_unwind(move || {
            shuttle::check_dfs(move || w2(progs2.clone()), Some(300000));
        })
    } else {
        result
    };
    match result {
        Ok(_) => std::process::exit(0),
        Err(_) => std::process::exit(1),
    }
}

