// Native driver for report.rs, injected as `report::verif_report` (cfg(test)).
// Cases (one per line, hex-encoded byte strings):
//   RT <path>            write a text report with one group holding <path> and a second path, read it back
//   TR <path> <cut>      same, but the report is cut <cut> bytes before its end; prints ok:<paths> | err
//   BD <basedir>         header round trip of the base dir
//   CM <arg> <arg>..     header round trip of the command line
//   GH <len> <hash> <n>  group header round trip (decimal length, decimal 128-bit hash, number of paths)
use super::*;
use crate::arg::Arg;
use crate::file::{FileHash, FileLen};
use crate::path::Path;
use std::ffi::OsString;
use std::io::Cursor;
use std::os::unix::ffi::{OsStrExt, OsStringExt};

fn hex(b: &[u8]) -> String {
    b.iter().map(|x| format!("{:02x}", x)).collect::<String>()
}

fn unhex(s: &str) -> Vec<u8> {
    (0..s.len() / 2).map(|i| u8::from_str_radix(&s[2 * i..2 * i + 2], 16).unwrap()).collect()
}

fn header(base: Path, command: Vec<Arg>) -> ReportHeader {
    ReportHeader {
        command,
        base_dir: base,
        version: env!("CARGO_PKG_VERSION").to_owned(),
        timestamp: DateTime::parse_from_str("2021-08-27 12:11:23.456 +0000", crate::TIMESTAMP_FMT).unwrap(),
        stats: Some(FileStats {
            group_count: 1,
            total_file_count: 2,
            total_file_size: FileLen(200),
            redundant_file_count: 1,
            redundant_file_size: FileLen(100),
            missing_file_count: 0,
            missing_file_size: FileLen(0),
        }),
    }
}

fn path_of(bytes: &[u8]) -> Path {
    Path::from(std::path::PathBuf::from(OsString::from_vec(bytes.to_vec())))
}

fn pbytes(p: &Path) -> Vec<u8> {
    p.to_path_buf().into_os_string().as_bytes().to_vec()
}

fn write_report(base: Path, command: Vec<Arg>, paths: Vec<Path>) -> Vec<u8> {
    let command = if command.is_empty() { vec![Arg::from("fclones"), Arg::from("group")] } else { command };
    let groups = vec![FileGroup { file_len: FileLen(100), file_hash: FileHash::from(0x1234), files: paths }];
    let mut out = Vec::new();
    {
        let mut w = ReportWriter::new(&mut out, false);
        w.write_as_text(&header(base, command), groups.iter()).unwrap();
    }
    out
}

fn read_groups(data: Vec<u8>) -> String {
    let r = std::panic::catch_unwind(move || {
        let mut reader = TextReportReader::new(std::io::BufReader::new(Cursor::new(data)));
        let h = reader.read_header();
        if h.is_err() {
            return "hdr-err".to_string();
        }
        let groups = Box::new(reader).read_groups();
        let mut it = match groups {
            Ok(g) => g,
            Err(_) => return "err".to_string(),
        };
        let mut out = vec![];
        loop {
            match it.next() {
                Ok(Some(g)) => out.push(g.files.iter().map(|p| hex(&pbytes(p))).collect::<Vec<_>>().join(",")),
                Ok(None) => break,
                Err(_) => return "err".to_string(),
            }
        }
        format!("ok:{}", out.join(";"))
    });
    r.unwrap_or_else(|_| "panic".to_string())
}

#[test]
fn verif_report_driver() {
    let path = match std::env::var("VERIF_CASES") {
        Ok(p) => p,
        Err(_) => return,
    };
    std::panic::set_hook(Box::new(|_| {}));
    let input = std::fs::read_to_string(path).unwrap();
    let mut out = String::new();
    for line in input.lines() {
        let parts: Vec<&str> = line.split_whitespace().collect();
        if parts.is_empty() {
            continue;
        }
        let base = Path::from("/base");
        let res = match parts[0] {
            "RT" => {
                let p = path_of(&unhex(parts[1]));
                let data = write_report(base, vec![], vec![p, Path::from("/other/file")]);
                read_groups(data)
            }
            "GH" => {
                // group header round trip: one group of the given length and hash with <n> paths; prints what the reader sees
                let len: u64 = parts[1].parse().unwrap();
                let hash: u128 = parts[2].parse().unwrap();
                let n: usize = parts[3].parse().unwrap();
                let files: Vec<Path> = (0..n).map(|i| Path::from(format!("/dir/f{}", i).as_str())).collect();
                let groups = vec![FileGroup { file_len: FileLen(len), file_hash: FileHash::from(hash), files }];
                let mut data = Vec::new();
                {
                    let mut w = ReportWriter::new(&mut data, false);
                    w.write_as_text(&header(base, vec![Arg::from("fclones"), Arg::from("group")]), groups.iter()).unwrap();
                }
                let r = std::panic::catch_unwind(move || {
                    let mut reader = TextReportReader::new(std::io::BufReader::new(Cursor::new(data)));
                    if reader.read_header().is_err() {
                        return "hdr-err".to_string();
                    }
                    let mut it = match Box::new(reader).read_groups() {
                        Ok(g) => g,
                        Err(_) => return "err".to_string(),
                    };
                    match it.next() {
                        Ok(Some(g)) => format!("len={} hash={} n={}", g.file_len.0, g.file_hash, g.files.len()),
                        Ok(None) => "none".to_string(),
                        Err(_) => "err".to_string(),
                    }
                });
                r.unwrap_or_else(|_| "panic".to_string())
            }
            "TR" => {
                let p = path_of(&unhex(parts[1]));
                let cut: usize = parts[2].parse().unwrap();
                let mut data = write_report(base, vec![], vec![Path::from("/other/file"), p]);
                let n = data.len().saturating_sub(cut);
                data.truncate(n);
                read_groups(data)
            }
            "BD" => {
                let b = path_of(&unhex(parts[1]));
                let data = write_report(b, vec![], vec![Path::from("/a"), Path::from("/b")]);
                let r = std::panic::catch_unwind(move || {
                    let mut reader = TextReportReader::new(std::io::BufReader::new(Cursor::new(data)));
                    match reader.read_header() {
                        Ok(h) => format!("ok:{}", hex(&pbytes(&h.base_dir))),
                        Err(_) => "err".to_string(),
                    }
                });
                r.unwrap_or_else(|_| "panic".to_string())
            }
            "CM" => {
                let args: Vec<Arg> = parts[1..].iter().map(|h| Arg::from(OsString::from_vec(unhex(h)))).collect();
                let data = write_report(base, args, vec![Path::from("/a"), Path::from("/b")]);
                let r = std::panic::catch_unwind(move || {
                    let mut reader = TextReportReader::new(std::io::BufReader::new(Cursor::new(data)));
                    match reader.read_header() {
                        Ok(h) => format!("ok:{}", h.command.iter().map(|a| hex(a.as_os_str().as_bytes())).collect::<Vec<_>>().join(",")),
                        Err(_) => "err".to_string(),
                    }
                });
                r.unwrap_or_else(|_| "panic".to_string())
            }
            _ => "?".to_string(),
        };
        out.push_str(&format!("{} => {}\n", line, res));
    }
    std::fs::write(std::env::var("VERIF_OUT").unwrap(), out).unwrap();
}
