// Native driver for dedupe.rs kernels (injected as a cfg(test) child module of dedupe.rs).
//   TF <path hex>..                          -> per path: hex of FsCommand::temp_file(path)
//   MT <target dir hex> <source path hex>..   -> per source: hex of the bytes of PartitionedFileGroup::move_target(dir, source)
use super::*;
use std::os::unix::ffi::{OsStrExt, OsStringExt};

fn unhex(s: &str) -> Vec<u8> {
    (0..s.len() / 2).map(|i| u8::from_str_radix(&s[2 * i..2 * i + 2], 16).unwrap()).collect()
}

fn path_of(h: &str) -> Path {
    Path::from(std::ffi::OsString::from_vec(unhex(h)))
}

#[test]
fn verif_dedupe_driver() {
    let inp = std::fs::read_to_string(std::env::var("VERIF_CASES").unwrap()).unwrap();
    let mut out = String::new();
    for line in inp.lines() {
        let f: Vec<&str> = line.split_whitespace().collect();
        if f.is_empty() {
            continue;
        }
        let res = std::panic::catch_unwind(|| match f[0] {
            "MT" => {
                let dir = Arc::new(path_of(f[1]));
                f[2..]
                    .iter()
                    .map(|h| {
                        let t = PartitionedFileGroup::move_target(&dir, &path_of(h));
                        t.to_path_buf().as_os_str().as_bytes().iter().map(|b| format!("{:02x}", b)).collect::<String>()
                    })
                    .collect::<Vec<_>>()
                    .join(" ")
            }
            "TF" => f[1..]
                .iter()
                .map(|h| {
                    let t = FsCommand::temp_file(&path_of(h));
                    t.to_path_buf().as_os_str().as_bytes().iter().map(|b| format!("{:02x}", b)).collect::<String>()
                })
                .collect::<Vec<_>>()
                .join(" "),
            _ => "?".to_string(),
        });
        out.push_str(&res.unwrap_or_else(|_| "PANIC".to_string()));
        out.push('\n');
    }
    std::fs::write(std::env::var("VERIF_OUT").unwrap(), out).unwrap();
}
