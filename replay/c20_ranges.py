#!/usr/bin/env python3
"""Native replay for C20 (lock semantics): a droppable file carries a foreign fcntl lock - whole file, a range inside the file,
or a range entirely beyond its end (as databases use for lock bytes) - while remove / link / link --soft / move run.
usage: c20_ranges.py <scratch copy of the repo> <work dir>      prints one JSON line {"runs": n, "violations": [...]}"""
import json, os, shutil, subprocess, sys, tempfile, time


def main():
    src, work = sys.argv[1], sys.argv[2]
    tdir = os.path.join(work, "native-target")
    env0 = dict(os.environ, CARGO_NET_OFFLINE="true")
    env0.pop("RUSTFLAGS", None)
    p = subprocess.run(["cargo", "build", "--offline", "--bin", "fclones", "--target-dir", tdir], cwd=os.path.join(src, "fclones"), env=env0,
                       stdout=subprocess.PIPE, stderr=subprocess.STDOUT, timeout=1800)
    binary = os.path.join(tdir, "debug", "fclones")
    if p.returncode != 0 or not os.path.exists(binary):
        print(json.dumps({"runs": 0, "violations": [], "error": p.stdout.decode(errors="replace")[-300:]}))
        return
    holder_src = ("import fcntl,sys,time,os\nf=open(sys.argv[1],'r+b')\nkind=sys.argv[2]\n"
                  "if kind=='whole': fcntl.lockf(f,fcntl.LOCK_EX)\n"
                  "elif kind=='beyond': fcntl.lockf(f,fcntl.LOCK_EX,510,0x40000002,os.SEEK_SET)\n"
                  "else: fcntl.lockf(f,fcntl.LOCK_EX,10,100,os.SEEK_SET)\n"
                  "print('locked',flush=True)\ntime.sleep(120)")
    runs, viol = 0, []
    for op in ("remove", "link", "soft", "move"):
        for kind in ("whole", "inside", "beyond"):
            d = tempfile.mkdtemp(prefix="c20r.", dir="/var/tmp")
            try:
                tree = os.path.join(d, "tree")
                os.makedirs(tree)
                a, b, c = (os.path.join(tree, n) for n in ("a.bin", "b.bin", "c.bin"))
                for q in (a, b, c):
                    open(q, "wb").write(b"x" * 5000)
                    old = time.time() - 100
                    os.utime(q, (old, old))
                env = dict(os.environ, HOME=d, XDG_CACHE_HOME=os.path.join(d, "cache"))
                rep = os.path.join(d, "report.txt")
                with open(rep, "wb") as out:
                    subprocess.check_call([binary, "group", tree], stdout=out, stderr=subprocess.DEVNULL, env=env)
                st0 = os.lstat(b)
                holder = subprocess.Popen([sys.executable, "-c", holder_src, b, kind], stdout=subprocess.PIPE)
                holder.stdout.readline()
                args = {"remove": ["remove"], "link": ["link"], "soft": ["link", "--soft"], "move": ["move", os.path.join(d, "moved")]}[op]
                with open(rep, "rb") as inp:
                    r = subprocess.run([binary] + args, stdin=inp, stdout=subprocess.PIPE, stderr=subprocess.PIPE, env=env, timeout=120)
                holder.kill(); holder.wait()
                runs += 1
                try:
                    st1 = os.lstat(b)
                except FileNotFoundError:
                    st1 = None
                changed = st1 is None or (st1.st_ino, st1.st_mode) != (st0.st_ino, st0.st_mode)
                c_done = not os.path.exists(c) or os.lstat(c).st_ino != st0.st_ino and (os.path.islink(c) or os.lstat(c).st_nlink > 1) or not os.path.exists(c)
                if changed:
                    viol.append({"op": op, "foreign_lock": kind, "locked_file": "processed although another process holds a lock on it",
                                 "stderr": r.stderr.decode(errors="replace").strip()[-200:]})
            finally:
                shutil.rmtree(d, ignore_errors=True)
    print(json.dumps({"runs": runs, "violations": viol}))


main()
