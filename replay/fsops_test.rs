// Native replay driver, injected as `dedupe::verif_replay` (cfg(test)) into a scratch copy.
use super::*;
use crate::log::StdLog;

#[test]
fn verif_replay_execute() {
    let dir = match std::env::var("VERIF_DIR") {
        Ok(d) => d,
        Err(_) => return,
    };
    let op = std::env::var("VERIF_OP").unwrap();
    let use_rename = std::env::var("VERIF_USE_RENAME").map(|v| v == "1").unwrap_or(false);
    let lock = std::env::var("VERIF_LOCK").map(|v| v == "1").unwrap_or(false);
    let mut log = StdLog::new();
    log.no_progress = true;
    let l = PathAndMetadata::new(Path::from(format!("{dir}/L"))).unwrap();
    let k = PathAndMetadata::new(Path::from(format!("{dir}/K"))).unwrap();
    let cmd = match op.as_str() {
        "remove" => FsCommand::Remove { file: l },
        "link" => FsCommand::HardLink { target: Arc::new(k), link: l },
        "soft" => FsCommand::SoftLink { target: Arc::new(k), link: l },
        "reflink" => FsCommand::RefLink { target: Arc::new(k), link: l },
        _ => FsCommand::Move { source: l, target: Path::from(format!("{dir}/P/D")), use_rename },
    };
    std::env::set_var("VERIF_ARMED", "1");
    let r = cmd.execute(lock, &log);
    std::env::remove_var("VERIF_ARMED");
    match r {
        Ok(_) => println!("VERIF_RESULT ok"),
        Err(e) => println!("VERIF_RESULT err {}", e),
    }
}
